"""Confirm sub-agent changes independently and store them under /verif/seeded/.
usage: tools/ingest_wave.py <mapping.json>
mapping: {"c10d": {"property": "C10", "worktree": "/tmp/wt-c10c", "n": 1, "change": "...", "needs": "..."}, ...}
For each entry: clean tree, git apply, full suite with PYTHONPATH=<wt>/lib (must be 2608 passed), demo (exit 1),
revert, demo (exit 0).  Only confirmed entries are stored."""
import json
import os
import shutil
import subprocess
import sys

PY = '/venv/bin/python'


def sh(cmd, cwd, env=None, timeout=1200):
    return subprocess.run(cmd, cwd=cwd, env=env, capture_output=True, text=True, timeout=timeout)


def main():
    mapping = json.load(open(sys.argv[1]))
    for sid, m in sorted(mapping.items()):
        wt, n = m['worktree'], m['n']
        env = dict(os.environ, PYTHONPATH=os.path.join(wt, 'lib'))
        sh(['git', 'checkout', '-q', '--', 'lib'], wt)
        r = sh(['git', 'apply', '_out/change%d.diff' % n], wt)
        if r.returncode != 0:
            print(sid, 'APPLY FAILED', r.stderr[:200])
            continue
        suite = sh([PY, '-m', 'pytest', '-q', '-p', 'no:cacheprovider', '--timeout=900', '--continue-on-collection-errors'], wt, env)
        tail = suite.stdout.strip().splitlines()[-1] if suite.stdout.strip() else ''
        d1 = sh([PY, '_out/demo%d.py' % n], wt, env, timeout=600).returncode
        sh(['git', 'checkout', '-q', '--', 'lib'], wt)
        d0 = sh([PY, '_out/demo%d.py' % n], wt, env, timeout=600).returncode
        ok = '2608 passed' in tail and d1 == 1 and d0 == 0
        print('%s: suite=[%s] demo_with=%d demo_without=%d -> %s' % (sid, tail, d1, d0, 'confirmed' if ok else 'REJECTED'))
        if not ok:
            continue
        d = os.path.join('/verif/seeded', sid)
        os.makedirs(d, exist_ok=True)
        shutil.copy(os.path.join(wt, '_out', 'change%d.diff' % n), os.path.join(d, 'patch.diff'))
        shutil.copy(os.path.join(wt, '_out', 'demo%d.py' % n), os.path.join(d, 'demo.py'))
        shutil.copy(os.path.join(wt, '_out', 'notes%d.md' % n), os.path.join(d, 'NOTES.md'))
        json.dump({'id': sid, 'property': m['property'], 'source': 'independent sub-agent given only the property text and a scratch worktree (%s)' % m.get('wave', 'wave 3'),
                   'change': m['change'], 'needs_to_manifest': m['needs'],
                   'confirmed': 'applied in the scratch worktree: full suite 2608 passed with PYTHONPATH=<worktree>/lib; demo.py exits 1 with the change and 0 without (run by the main session via tools/ingest_wave.py)',
                   'files': ['patch.diff', 'demo.py', 'NOTES.md']}, open(os.path.join(d, 'meta.json'), 'w'), indent=1)


if __name__ == '__main__':
    main()
