"""Regenerate /verif/MANIFEST.json from the table below (keeps the file valid at all times)."""
import json
import os

VERIF = os.path.dirname(os.path.dirname(os.path.abspath(__file__)))

NA = [
    ("C01", "pure function of (document, loader class): no schedule, clock, fault or history; its history-dependent facet (a registration leaking into the safe tables) is monitored as an invariant inside C10"),
    ("C02", "dump/load round trip is a pure function of (value, options); nothing to schedule or fail"),
    ("C04", "pure function of the document and the set of imported modules"),
    ("C05", "emit/parse round trip is a pure function of (event list, options)"),
    ("C06", "pure differential of two back-ends on one input; no environment involved (both back-ends are exercised by every claimed check, each compared only with itself)"),
    ("C08", "scalar typing is a pure function of the scalar text"),
    ("C09", "token/event grammar and marks are a pure function of the input text (C07 checks that marks do not depend on delivery, not that they are true)"),
    ("C12", "document boundaries are a pure function of (document list, options)"),
    ("C13", "alias identity is a pure function of the document"),
    ("C14", "merge-key construction is a pure function of the document"),
    ("C15", "output formatting is a pure function of (value, options)"),
    ("C17", "dump/unsafe-load vs pickle is a pure function of the object graph"),
    ("C20", "cost growth: deterministic simulation decides nothing about performance and the property has no fault or schedule"),
]

CHECKS = {
    "C03": dict(
        category="exploration",
        text="Hostile-channel facet of C03: corpus files (well- and ill-formed, all encodings) and synthetic documents containing every escape, directive and scalar form are pushed through a simulated channel that injects 0-5 seeded content faults (truncation, bit flip, overwrite from an indicator alphabet, dropped / duplicated / stuttered / swapped ranges, garbage, BOM insertion and removal, odd-length UTF-16, encoding confusion, look-alike transcoding of digits/blanks/letters/indicators, numeric-field confusion (a digit of an escape / URI escape / version / indentation indicator replaced by a sign, blank, underscore, radix letter or non-ASCII digit), lone surrogates on the text channel, nesting bursts <= 150, and - in 4% of the runs - pure indicator-rich noise) at positions biased into tokens with in-flight scanner state, corruption or lengthening of numeric fields, record-level duplication; corpus extended by small quoted-scalar layouts, recursive / alias mini-documents, surrogate escapes and near-miss numerics), delivered in memory and through SimReader with seeded read-size schedules, x scan / parse / compose / compose_all x both back-ends. Oracle: result or YAMLError, termination (20 s watchdog per library call, read budget, worker liveness; a suspected hang is re-executed in an isolated process with the limit x10 before it is reported), marks and ReaderError positions inside the input. Inputs whose nesting estimate exceeds 300 are counted as outside the property's quantifier and not executed. The fault-free configuration runs separately (about 10% of runs). Inputs that are not reachable as a corrupted corpus document are not sampled and not claimed.",
        design_ref="DESIGN.md section 3, C03",
        note="Trusted: the fault applicator, SimReader, the loose mark bounds. Known findings K3 (LibYAML binding, str with a lone surrogate) and K4 (LibYAML accepts URI escapes that are not valid UTF-8, the binding lets UnicodeDecodeError escape) are matched narrowly. Two genuine defects found by this check were repaired by fix: commits (known_findings.txt). RecursionError from nesting bursts is out of the property's scope and only counted.",
        technique="deterministic simulation of a faulty input channel: seeded content faults + read-size schedules, class-membership and termination oracle",
        quick_timeout=900, thorough_timeout=10800),
    "C07": dict(
        category="exploration",
        text="Seeded search over delivery forms and read-size schedules (random, targeted at multi-byte sequences / surrogate pairs / CR|LF / BOM / refill-block multiples, every two-piece split of small texts, refill-block knob 1..4096) for corpus and synthetic texts, both back-ends, four APIs and the Reader class driven directly; every delivery must observe exactly what the in-memory str delivery observes (items, line/column/index of every mark, terminal error). Reader-level defects: error signature identical for every chunking and inside an independently computed offset range. A clean batch is evidence, not proof; sampling is the right level because the space of (text, schedule) pairs is unbounded and the failure modes are boundary coincidences that the scheduler places on purpose.",
        design_ref="DESIGN.md section 3, C07",
        note="Trusted: the canonicaliser (sim/observe.py), SimReader, the in-memory str delivery as reference, CPython's strict codecs for the expected offset of undecodable bytes. K1 (eager validation of a refill block) is accepted as a known finding in exactly the class described in known_findings.txt. The C back-end is the generated _yaml.c / shipped .so (no Cython in the sandbox).",
        technique="deterministic simulation of the input channel: seeded read-size schedules + reference delivery as oracle",
        quick_timeout=900, thorough_timeout=10800),
    "C10": dict(
        category="exploration",
        text="Registration histories as a state machine: each case is a history of define-subclass / add_constructor / add_multi_constructor / add_representer / add_multi_representer / add_implicit_resolver / add_path_resolver / module-level yaml.add_* helper (default and explicit Loader= / Dumper=) / YAMLObject-subclass definition steps, some failing half-way (raising `first` iterable, invalid path element or kind, unhashable key, yaml_loader entry without add_constructor), executed in a child forked from a pristine process next to an executable model of the copy-on-first-write rule. After every step every class of the lattice (all 16 shipped loader/dumper classes of both back-ends plus the history's subclasses) is compared with the model: six effective tables, the mixin root tables, load / compose / dump probe behaviour against a reference class assembled from the model tables, restated exact/multi/None dispatch, and hostile-tag refusal of untargeted safe loaders. The lowest run indices enumerate ALL histories of length <= 2 (quick) / <= 3 (thorough) over a 56-operation alphabet on a fixed lattice; the rest are seeded 5-40 step histories with swarm-chosen kinds, lattice shape and failure rate. Seeded exploration is the right level beyond the enumerated bound because the history space grows as 56^n; every leak mechanism (missing copy, shallow copy, wrong fan-out, wrong class) needs only 1-3 specific steps, which the enumeration covers completely.",
        design_ref="DESIGN.md section 3, C10",
        note="Trusted: the model's transition rule (DESIGN.md 3/C10; validated on the unchanged tree at every step of every history), the label canonicaliser for registry contents, fork() giving a pristine registry state per history. Single inheritance only. There is no clock, channel or scheduler in this property: the simulated nondeterminism is the order of operations, the faults are failing registrations.",
        technique="deterministic simulation of registration histories (fork-per-history world, failing registrations) with step-by-step refinement against an executable registry model; short histories enumerated",
        quick_timeout=900, thorough_timeout=10800),
    "C11": dict(
        category="exploration",
        text="Histories of API calls inside one process, decided by a seeded scheduler over a pool of ~40 documents (valid, invalid at every stage, %YAML / %TAG directives, handles used without declaration, anchors defined / used without definition, recursive, merge keys), 17 values (plain, shared, recursive, custom class, unrepresentable) and well- and ill-formed event lists, through all shipped loader / dumper classes of both back-ends. Step kinds: complete call; call whose stream raises at a chosen read / write index; call interrupted by an exception raised from a trace function at a chosen line of lib/yaml (what a signal handler does); generator calls started, advanced, closed, thrown into or dropped in a scheduler-chosen interleaving; dump_all whose documents iterable makes another call between documents; a constructor that makes a re-entrant call; sessions in which further steps of the history (calls, generator steps) run while a dump_all or a load is in progress; line interrupts inside generator steps. Oracle: every observation equals the isolated reference of the same operation (executed alone in a child forked from a pristine process), and the digest of all module- and class-level state of the yaml package after every step equals the digest before the history. Stream clause: load_all / compose_all / parse / scan of concatenated explicit documents gives per document what the document gives alone (marks shifted), an invalid document ends the stream with its isolated error after exactly the earlier items; dump_all([v1..vn]) gives per document the events (anchors, tags, directives) of dump_all([vi]), also when the documents iterable yields one object that it mutates between yields; emit / serialize_all of the events / nodes of d1..dn give per document the events of the same call on di alone. Seeded exploration is the right level: leaks show only for particular orders of particular operations, and the space of histories is unbounded.",
        design_ref="DESIGN.md section 3, C11",
        note="Trusted: fork() from a process that imported yaml and made no call as the pristine world, the canonicaliser and global-state digest (sim/observe.py), sys.settrace line events as interruption points (Python frames only: LibYAML itself cannot be interrupted). The interrupted call itself is not compared, only everything after it. Thread interleavings are not simulated (no thread-safety contract; the property speaks of preceding calls).",
        technique="deterministic simulation of call histories: seeded scheduler over complete / stream-faulted / line-interrupted / generator-interleaved / re-entrant calls, isolated-fork reference results and global-state digest as oracles",
        quick_timeout=900, thorough_timeout=10800),
    "C16": dict(
        category="exploration",
        text="The nondeterminism C16 names - hash randomisation, process identity (object addresses) and insertion order - is put under the simulator's control: every seeded value recipe (C02 universe; keys of one mapping / set from one mutually comparable family; shared and recursive containers; sets of strings whose iteration order really varies) is built and dumped in 3-4 persistent worker interpreters that differ only in PYTHONHASHSEED (8 values, two derived from VERIF_SEED) and in a seeded amount of junk allocation, under 1-3 insertion permutations, with seeded option sets and SafeDumper / CSafeDumper / Dumper / CDumper. Checked: text byte-identical across interpreters; with sort_keys also across permutations; without sort_keys a loader sees insertion order; dump(load(t)) identical across interpreters and equal to t whenever the round trip is exact (guarded fixed point, anchors included); dump(load(t), sort_keys=False) == t (document order kept by load); inside dump_all([w, x, x']) the events of x and of an unshared second build x' equal those of dump(x) (anchor names are a function of the document alone). Recipes deliberately contain equal-but-distinct leaves and the same leaf object several times. Sampling is the right level: these are relations over pairs of runs on an unbounded value space; what matters is that each run really differs in the controlled dimension, which the reach probe (set iteration order differed between interpreters) measures.",
        design_ref="DESIGN.md section 3, C16",
        note="Trusted: CPython's PYTHONHASHSEED mechanism, the recipe builder (same value under every hash seed), the type-strict order-insensitive canonical form used as the exact-round-trip guard. The unguarded fixed point for values whose round trip is inexact (e.g. U+0085 under allow_unicode) is C02 territory and is counted, not decided. Clauses about load order are pure functions of the input and are sampled, not simulated.",
        technique="deterministic simulation of hash randomisation, process identity and insertion order: same seeded value in several PYTHONHASHSEED worker interpreters x insertion permutations, byte-equality oracle",
        quick_timeout=900, thorough_timeout=10800),
    "C18": dict(
        category="exploration",
        text="Seeded multi-document streams (documents from empty to several refill blocks, comment/blank gaps, '...' and directive boundaries, several blocks of tail) delivered as text / UTF-8 / UTF-16 through SimReader with seeded read-size schedules to scan / parse / compose_all / load_all on both back-ends. Three oracles: (bound) at each document delivery, units handed out by the stream minus the end of the document's terminating token <= 2 refill blocks (4096 units pure Python, 16384 LibYAML) with no extra tolerance; (order) k good documents + one malformed document (20 malformation kinds at scanner / parser / directive / composer / constructor / reader level): exactly the k documents are delivered, then the error; (release) with the cyclic GC disabled a weak reference to the stream dies as soon as the generator is closed, thrown into, dropped, exhausted, or ended by a YAMLError or by an exception of the stream itself (raised at a seeded read index), at seeded abandonment points including 'never advanced', for all ten shipped loader classes. Document bodies include single unbroken tokens of several refill blocks. Sampling is the right level: the bound is a worst-case statement over unboundedly many (stream, schedule) pairs; the measured maxima (8187 / 16381) are reported so that the margin is visible.",
        design_ref="DESIGN.md section 3, C18",
        note="Trusted: SimReader's account of units handed out, a reference scan/parse of the in-memory text for document ends, CPython reference counting for the release oracle. K1 (reader-level defects pre-empt earlier documents of the same refill block) is accepted as a known finding only with the ReaderError at the expected offset.",
        technique="deterministic simulation of the input channel and of the generator's consumer: seeded read schedules, consumption accounting at each yield, abandonment points",
        quick_timeout=900, thorough_timeout=10800),
    "C19": dict(
        category="fault_enumeration",
        text="For each seeded case (values / documents x API x loader or dumper class incl. both back-ends x stream kind x callback set) the fault-free run records the invocation sequence of read / write / flush / constructor / representer / documents-iterator calls, and then EVERY index of that sequence is used as the failure point in a fresh execution (exhaustive per case; capped at 1000 points with first/last/flush-adjacent/seeded sample for the rare larger case), with the exception kind rotating through 21 kinds including every type the library catches internally. Checked per point: identity of the exception object, unchanged type/args/cause/notes, written or yielded prefix, fault-free follow-up run and reference call, unchanged global state; at every other stream fault point the fault is sticky (the stream keeps failing on every later call, as a broken pipe does) and the first injected instance must still be what reaches the caller; plus seeded sequences of 2-3 consecutive faulted calls. Exhaustive in the crash-point dimension of each case, sampled in the case dimension.",
        design_ref="DESIGN.md section 3, C19",
        note="Trusted: SimReader/SimWriter, the harness callbacks, the canonicaliser and the global-state digest (sim/observe.py). Only Python-visible seams can fail: allocation failures inside LibYAML have no seam and are not injected. StopIteration/GeneratorExit are not injected (PEP 479).",
        technique="fault injection at every index of the recorded seam-invocation sequence (crash-point enumeration) in a deterministic simulation",
        quick_timeout=900, thorough_timeout=10800),
}

# facets added in later rounds (appended to the level text of the check)
ADDENDA = {
    "C03": " Later additions: the loader class rotates over Safe / Full / Base / unsafe loaders of both back-ends and a harness loader with path resolvers and extra implicit resolvers (the descend / ascend / prefix-check code is idle in the shipped classes); in an eighth of the cases the stream itself raises at a seeded read() call (12 kinds) and the caller must see that very exception or a YAMLError; str() of every YAMLError must not raise.",
    "C07": " Later additions: loader class rotation; a third of the clean-text cases keep ALL deliveries alive at once as generators advanced in a seeded interleaving; in-memory deliveries of a defective text are repeated right after a clean text of the same length was loaded and released (address reuse; replays are attempted five times).",
    "C10": " Later addition: the quoting of plain strings by each dumper class is predicted from the model's implicit resolvers (restated rule), because a reference class shares whatever the serializer shares between classes.",
    "C11": " Later additions: the pool is widened by seeded corpus / synthetic texts and recipe-built values carried inside the operation; twin calls (an ==-equal variant of the value just dumped - 1 / True / 1.0, 0.0 / -0.0 -, the same events / nodes under other options or another dumper class); event and node objects are kept by the caller across the calls of a history; mode stream_object drives ONE Loader object by check_data / get_data and carries on after a ConstructorError (documents after a failed one must be what they are alone).",
    "C16": " Later additions: the neighbour of the value inside a dump_all stream and inside one document is often an ==-equal variant of it (the in-document clause compares the representation graph); dump histories contain stream-less dumps that fail half-way and a failed dump of the very object that is dumped afterwards (repaired in place); keys of several hundred characters that must be escaped; strings with line breaks / blanks / tabs at their edges. Three families whose round trip is inexact on the unchanged tree keep the exactness guard (NEL/LS/PS, width <= 20, folded style with a long text that has a line beginning with a blank).",
    "C18": " Later additions: the convenience wrappers safe_/full_/unsafe_load_all (generator functions of their own); bound runs through genuine files on disk (fileno, size) besides io.StringIO / BytesIO / RawIOBase objects; malformation kinds 'text on the line of the ... marker'.",
    "C19": " Later additions: the convenience wrappers (safe_load(_all), full_load(_all), unsafe_load(_all), safe_dump_all, serialize) and the Unsafe / CBase classes; harness classes with path resolvers; dumps into genuine io.BytesIO / io.StringIO objects (after the caller lets go of the exception the stream must still be open and hold a prefix); object-API streams of 30-80 documents in which a user constructor fails every time below deep-constructing user constructors (each failure must be the injected instance, every other document the fault-free value, a fault-free follow-up clean).",
}

# facets added in the session of waves 10-12 (appended after ADDENDA)
ADDENDA2 = {
    "C03": " A RecursionError is out of scope only beyond an EXACT nesting depth of 300 (counted on the events of the iterative pure-Python parser when such an error is seen); corpus family deepnest (depth 150-298).",
    "C10": " Operation yext: the yaml_loader list a YAMLObject class sees (YAMLObject's own included) is extended in place; the model keeps list identity and the module-level helpers must still fan out to the three documented classes only. Histories in many-prefixes mode (twelve more multi-constructor prefixes) with one load probe per registered prefix.",
    "C11": " Step kind preempt: at the k-th line event of a call in progress the trace function runs another complete call (often a twin of the pre-empted one) and / or advances the other party's in-flight generator tasks - what a signal handler or another thread obtaining the GIL there does; both calls are compared with their isolated references. A tenth of the streams of the stream modes are long streams of records (30-150 documents / values).",
    "C16": " Dump histories also contain the same value dumped under OTHER options / by another dumper class and a dump cut short by a failing write(); neighbour keys include twins under Unicode normalisation and case folding; the multi-document clause writes the same container object twice with other contents; in 4 % of the sorted cases the value comes after 1-100 mappings whose keys are not mutually comparable.",
    "C18": " 15 % of the streams are written in scripts of 3-4 UTF-8 bytes per character (text streams into the C input handler).",
    "C19": " Caller-owned code also covers what the python/object tags run (callable of python/object/apply, __init__ / __setstate__ of python/object(/new), __reduce_ex__); callback-fault load cases also pass the document in memory; marked YAML errors with marks among the kinds; open-ended root-scalar documents right before a document whose callback can fail.",

}

ENGINE = {
    "name": "pyyaml-sim",
    "path": "/verif/sim",
    "kind_free_text": "deterministic simulation kernel written for this task (no framework): seeded PRNG sub-streams derived from VERIF_SEED, simulated reader/writer streams with scheduled piece sizes and injected exceptions, callback and generator schedulers, fork-per-history worlds, SIGALRM watchdog, greedy delta-debugging minimiser, explicit JSON replay files, determinism self-test in a fresh interpreter under another PYTHONHASHSEED",
}


def main():
    checks = []
    for pid in sorted(CHECKS):
        c = CHECKS[pid]
        checks.append({
            "property_id": pid,
            "quick_cmd": "timeout %d ./check %s --tier quick" % (c['quick_timeout'], pid),
            "thorough_cmd": "timeout %d ./check %s --tier thorough" % (c['thorough_timeout'], pid),
            "evidence_file": "/verif/evidence/%s.json" % pid,
            "replay_cmd_template": "./check %s --replay {path}" % pid,
            "engine": "pyyaml-sim",
            "level_claimed": {"category": c['category'], "text": c['text'] + ADDENDA.get(pid, '') + ADDENDA2.get(pid, ''), "design_ref": c['design_ref']},
            "level_note": c['note'],
            "technique": c['technique'],
        })
    claimed = set(CHECKS)
    man = {
        "version": 1,
        "setup_cmd": "mkdir -p /verif/replays /verif/evidence && /venv/bin/python -B -c \"import sys; sys.path.insert(0, '/verif'); from sim import build; print(build.prepare()['note'])\"",
        "hooks": {
            "guard": "PYYAML_VERIF_SIM",
            "enable": "no hook commits exist: every seam is a public stream argument, a registration API, an overridable method (update_raw) or an interpreter facility (sys.settrace, PYTHONHASHSEED, fork); checks import yaml from /repo/lib (the working tree) and use /repo/lib/yaml/_yaml*.so, rebuilding it from yaml/_yaml.c with gcc when it is missing or older",
            "baseline_off_cmd": "cd /repo && /venv/bin/python -m pytest -ra -q -p no:cacheprovider --timeout=900 --continue-on-collection-errors",
            "source_commits": [],
            "add_only": True,
        },
        "engines": [dict(ENGINE, serves_properties=sorted(claimed))],
        "checks": checks,
        "notes": "Technique family: deterministic simulation with fault injection. Claimed properties are those that depend on a channel, a fault, a schedule, a history or the process environment; the rest are pure functions of their input and listed under not_applicable (DESIGN.md section 4). Known findings: /verif/known_findings.txt. Sensitivity self-test: selftest/mutants.py; seeded changes from independent sub-agents: /verif/seeded/.",
        "not_applicable": [{"property_id": p, "reason": r} for p, r in NA if p not in claimed],
    }
    with open(os.path.join(VERIF, 'MANIFEST.json'), 'w') as f:
        json.dump(man, f, indent=1)
        f.write('\n')


if __name__ == '__main__':
    main()
