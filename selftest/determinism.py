"""Determinism self-test of the simulator (DESIGN.md section 7): the first N runs of each check
are executed three times - in the worker pool with J1 jobs under PYTHONHASHSEED=a, in the pool
with J2 jobs under PYTHONHASHSEED=b, and serially in one fresh interpreter under PYTHONHASHSEED=c -
and the event-log digests of every run must be identical.  Also repeated for a second VERIF_SEED.

usage: selftest/determinism.py [--only C07,C11] [--runs 200] [--seeds 20260929,7]
"""
import argparse
import json
import os
import re
import subprocess
import sys
import tempfile

VERIF = os.path.dirname(os.path.dirname(os.path.abspath(__file__)))
PY = '/venv/bin/python'


def pool_run(check, seed, runs, jobs, hashseed):
    fd, path = tempfile.mkstemp(prefix='verif-det-', suffix='.json')
    os.close(fd)
    env = dict(os.environ, VERIF_SEED=str(seed), PYTHONHASHSEED=str(hashseed), VERIF_DUMP_DIGESTS=path)
    # evidence and replays of this side run must not replace the registered ones
    r = subprocess.run([PY, '-B', os.path.join(VERIF, 'sim', 'main.py'), check, '--tier', 'quick', '--runs', str(runs),
                        '--jobs', str(jobs), '--no-selfcheck', '--wall', '3000', '--no-evidence'], env=env, capture_output=True, text=True)
    try:
        d = json.load(open(path))
    finally:
        os.unlink(path)
    if r.returncode not in (0,):
        print(r.stdout[-1500:])
        raise SystemExit('%s: pool run exited %d' % (check, r.returncode))
    return {int(k): v for k, v in d.items()}


def serial_run(check, seed, indices, hashseed):
    env = dict(os.environ, VERIF_SEED=str(seed), PYTHONHASHSEED=str(hashseed))
    r = subprocess.run([PY, '-B', os.path.join(VERIF, 'sim', 'main.py'), check, '--tier', 'quick', '--digest',
                        ','.join(str(i) for i in indices)], env=env, capture_output=True, text=True)
    line = [l for l in r.stdout.splitlines() if l.startswith('DIGESTS ')]
    if r.returncode != 0 or not line:
        print(r.stdout[-1500:], r.stderr[-1500:])
        raise SystemExit('%s: serial run failed' % check)
    return {int(k): v[0] for k, v in json.loads(line[-1][len('DIGESTS '):]).items()}


def main():
    ap = argparse.ArgumentParser()
    ap.add_argument('--only')
    ap.add_argument('--runs', type=int, default=200)
    ap.add_argument('--seeds', default='20260929,7')
    args = ap.parse_args()
    checks = sorted(f[:-3].upper() for f in os.listdir(os.path.join(VERIF, 'checks')) if re.match(r'c\d+\.py$', f))
    if args.only:
        checks = [c for c in checks if c in args.only.split(',')]
    bad = 0
    for check in checks:
        for seed in [int(x) for x in args.seeds.split(',')]:
            a = pool_run(check, seed, args.runs, 16, 0)
            b = pool_run(check, seed, args.runs, 3, 987654321)
            c = serial_run(check, seed, sorted(a), 4242)
            diff = [i for i in sorted(a) if not (a[i] == b.get(i) == c.get(i))]
            print('%s seed=%d runs=%d: %s' % (check, seed, len(a), 'identical in 3 executions (16 jobs/hashseed 0, 3 jobs/hashseed 987654321, serial/hashseed 4242)'
                                               if not diff else 'MISMATCH at runs %r' % diff[:10]))
            bad += bool(diff)
    return 1 if bad else 0


if __name__ == '__main__':
    sys.exit(main())
