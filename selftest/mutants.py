"""Sensitivity self-test: apply each mutant (one textual replacement in lib/yaml/<file>) to a
scratch copy of /repo/lib outside /repo and /verif, point the corresponding check at it
through VERIF_YAML_LIB, and require exit 1 with a VIOLATION line whose replay file
reproduces (exit 1) against the mutated copy and does not (exit 0) against the real tree.

usage: selftest/mutants.py [--only M1,M3] [--runs N] [--suite]   (--suite also runs the repo's
test-suite on the mutated copy, to re-confirm that the mutant survives it)
"""
import argparse
import os
import re
import shutil
import subprocess
import sys
import tempfile

VERIF = os.path.dirname(os.path.dirname(os.path.abspath(__file__)))
REPO = os.environ.get('VERIF_REPO', '/repo')

# id, check, file, old, new
MUTANTS = [
    ('M1', 'C07', 'reader.py', "            self.update(length+1)\n        while length:", "            self.update(length)\n        while length:"),
    ('M3', 'C07', 'reader.py', "len(self.raw_buffer) < 2):", "len(self.raw_buffer) < 1):"),
    ('M23', 'C07', 'reader.py', "position = self.stream_pointer-len(self.raw_buffer)+exc.start", "position = self.stream_pointer+exc.start"),
    ('M4', 'C11', 'composer.py', "        self.get_event()\n\n        self.anchors = {}\n        return node", "        self.get_event()\n\n        return node"),
    ('M6', 'C18', '__init__.py', "            yield loader.get_data()\n    finally:\n        loader.dispose()", "            yield loader.get_data()\n    finally:\n        pass"),
    ('M27', 'C18', '__init__.py', "        while loader.check_data():\n            yield loader.get_data()\n", "        docs = []\n        while loader.check_data():\n            docs.append(loader.get_data())\n        for doc in docs:\n            yield doc\n"),
    ('M28', 'C18', 'reader.py', "data = self.stream.read(size)", "data = self.stream.read()"),
    ('M11', 'C18', 'reader.py', "def update_raw(self, size=4096):", "def update_raw(self, size=1<<24):"),
    ('M7', 'C19', 'reader.py', "        data = self.stream.read(size)\n", "        try:\n            data = self.stream.read(size)\n        except Exception as exc:\n            raise ReaderError(self.name, self.stream_pointer, 0, 'stream', str(exc))\n"),
    ('M19', 'C19', 'emitter.py', "            self.stream.flush()\n", "            try:\n                self.stream.flush()\n            except Exception:\n                pass\n"),
    ('M29', 'C19', 'constructor.py', "        if tag_suffix is None:\n            data = constructor(self, node)\n", "        if tag_suffix is None:\n            try:\n                data = constructor(self, node)\n            except ConstructorError:\n                raise\n            except Exception as exc:\n                raise ConstructorError(None, None, 'constructor failed: %s' % exc, node.start_mark)\n"),
    ('M10', 'C16', 'representer.py', "        return self.represent_mapping('tag:yaml.org,2002:set', value)", "        return self.represent_mapping('tag:yaml.org,2002:set', list(value.items()))"),
    ('M33', 'C16', 'representer.py', "            if self.sort_keys:\n                try:", "            if self.sort_keys and all(isinstance(k, str) for k, v in mapping):\n                try:"),
    ('M13', 'C10', 'representer.py', "        if not 'yaml_representers' in cls.__dict__:\n            cls.yaml_representers = cls.yaml_representers.copy()\n", "        if not 'yaml_representers' in cls.__dict__:\n            pass\n"),
    ('M14', 'C10', 'resolver.py', "implicit_resolvers[key] = cls.yaml_implicit_resolvers[key][:]", "implicit_resolvers[key] = cls.yaml_implicit_resolvers[key]"),
    ('M32', 'C10', '__init__.py', "        loader.UnsafeLoader.add_constructor(tag, constructor)\n    else:", "        loader.UnsafeLoader.add_constructor(tag, constructor)\n        loader.SafeLoader.add_constructor(tag, constructor)\n    else:"),
    # C03: the two defects repaired by "fix:" commits, re-introduced (the check must fail on the pre-fix tree)
    ('F1', 'C03', 'scanner.py', "                    if code > 0x10FFFF:\n", "                    if False:\n"),
    ('F2', 'C03', 'scanner.py', "        try:\n            value = int(self.prefix(length))\n        except ValueError:\n", "        try:\n            value = int(self.prefix(length))\n        except ZeroDivisionError:\n"),
    # C18: the defect repaired by the third fix: commit (pending two-step generators keep the loader alive after a ConstructorError)
    ('F3', 'C18', 'constructor.py', "            # stream) alive until the next run of the cyclic garbage collector.\n            self.state_generators = []\n", "            # stream) alive until the next run of the cyclic garbage collector.\n"),
    # C11: a process-wide scratch list, emptied in a finally (clean after every call, also after an interrupted one):
    # visible only when another call runs while a quoted scalar is being scanned (line-level pre-emption)
    ('M40', 'C11', 'scanner.py', "        chunks = []\n        start_mark = self.get_mark()\n        quote = self.peek()\n        self.forward()\n        chunks.extend(self.scan_flow_scalar_non_spaces(double, start_mark))\n        while self.peek() != quote:\n            chunks.extend(self.scan_flow_scalar_spaces(double, start_mark))\n            chunks.extend(self.scan_flow_scalar_non_spaces(double, start_mark))\n        self.forward()\n        end_mark = self.get_mark()\n        return ScalarToken(''.join(chunks), False, start_mark, end_mark,\n                style)\n", "        chunks = Scanner._flow_chunks      # one reusable scratch list for the whole process\n        del chunks[:]\n        try:\n            start_mark = self.get_mark()\n            quote = self.peek()\n            self.forward()\n            chunks.extend(self.scan_flow_scalar_non_spaces(double, start_mark))\n            while self.peek() != quote:\n                chunks.extend(self.scan_flow_scalar_spaces(double, start_mark))\n                chunks.extend(self.scan_flow_scalar_non_spaces(double, start_mark))\n            self.forward()\n            end_mark = self.get_mark()\n            return ScalarToken(''.join(chunks), False, start_mark, end_mark,\n                    style)\n        finally:\n            del chunks[:]\n\n    _flow_chunks = []\n"),
    # C19: the callable of !!python/object/apply / python/object/new is caller-owned code: a 'friendlier' error replaces its exception
    ('M41', 'C19', 'constructor.py', '        else:\n            return cls(*args, **kwds)\n', '        else:\n            try:\n                return cls(*args, **kwds)\n            except Exception as exc:\n                raise ConstructorError("while constructing a Python instance", node.start_mark,\n                        "cannot call %r: %s" % (cls, exc), node.start_mark)\n'),
]


def make_copy(mut):
    mid, check, fname, old, new = mut
    tmp = tempfile.mkdtemp(prefix='verif-mut-%s-' % mid, dir='/tmp')
    lib = os.path.join(tmp, 'lib')
    shutil.copytree(os.path.join(REPO, 'lib'), lib, ignore=shutil.ignore_patterns('__pycache__', '*.egg-info'))
    path = os.path.join(lib, 'yaml', fname)
    src = open(path).read()
    if src.count(old) != 1:
        shutil.rmtree(tmp)
        raise SystemExit('%s: pattern occurs %d times in %s' % (mid, src.count(old), fname))
    open(path, 'w').write(src.replace(old, new))
    return tmp, lib


def run_suite(tmp, lib):
    """Run the repository's suite against the mutated copy (tests copied too)."""
    shutil.copytree(os.path.join(REPO, 'tests'), os.path.join(tmp, 'tests'), ignore=shutil.ignore_patterns('__pycache__'))
    for f in ('pyproject.toml', 'tox.ini', 'setup.py'):
        if os.path.exists(os.path.join(REPO, f)):
            shutil.copy(os.path.join(REPO, f), tmp)
    env = dict(os.environ, PYTHONPATH=lib)
    r = subprocess.run(['/venv/bin/python', '-m', 'pytest', '-q', '-p', 'no:cacheprovider', '-x', '--timeout=900',
                        '--continue-on-collection-errors'], cwd=tmp, env=env, capture_output=True, text=True)
    tail = r.stdout.strip().splitlines()[-1] if r.stdout.strip() else ''
    return r.returncode, tail


def main():
    ap = argparse.ArgumentParser()
    ap.add_argument('--only')
    ap.add_argument('--runs', type=int)
    ap.add_argument('--suite', action='store_true')
    ap.add_argument('--tier', default='quick')
    args = ap.parse_args()
    only = set(args.only.split(',')) if args.only else None
    failed = []
    for mut in MUTANTS:
        mid, check = mut[0], mut[1]
        if only and mid not in only:
            continue
        if not os.path.exists(os.path.join(VERIF, 'checks', check.lower() + '.py')):
            print('%-4s %s: check not built yet' % (mid, check))
            continue
        tmp, lib = make_copy(mut)
        try:
            if args.suite:
                rc, tail = run_suite(tmp, lib)
                print('%-4s suite on mutated copy: rc=%d %s' % (mid, rc, tail))
            env = dict(os.environ, VERIF_YAML_LIB=lib, VERIF_STOP_ON_VIOLATION='1')
            cmd = [os.path.join(VERIF, 'check'), check, '--tier', args.tier, '--no-selfcheck', '--no-evidence']
            if args.runs:
                cmd += ['--runs', str(args.runs)]
            r = subprocess.run(cmd, env=env, capture_output=True, text=True)
            m = re.search(r'^VIOLATION property=(\S+) replay=(\S+)', r.stdout, re.M)
            cls = re.search(r'^violation class=(\S+)', r.stdout, re.M)
            ok = r.returncode == 1 and m is not None
            rep_mut = rep_real = None
            if ok:
                rp = m.group(2)
                rep_mut = subprocess.run([os.path.join(VERIF, 'check'), check, '--replay', rp], env=env,
                                         capture_output=True, text=True).returncode
                env2 = dict(os.environ)
                env2.pop('VERIF_YAML_LIB', None)
                rep_real = subprocess.run([os.path.join(VERIF, 'check'), check, '--replay', rp], env=env2,
                                          capture_output=True, text=True).returncode
                ok = rep_mut == 1 and rep_real == 0
                os.unlink(rp)
            print('%-4s %s: %s (exit %d, class=%s, replay on mutant=%s, replay on real tree=%s)' % (
                mid, check, 'CAUGHT' if ok else 'MISSED', r.returncode, cls.group(1) if cls else None, rep_mut, rep_real))
            if not ok:
                failed.append(mid)
                print(r.stdout[-1500:])
        finally:
            shutil.rmtree(tmp, ignore_errors=True)
    if failed:
        print('MISSED: ' + ','.join(failed))
        return 1
    return 0


if __name__ == '__main__':
    sys.exit(main())
