"""Run the checks against the seeded changes kept under /verif/seeded/<id>/ (patch.diff from an
independent sub-agent).  Each patch is applied to a scratch copy of /repo/lib under /tmp (never
to /repo), the check of the broken property is pointed at it via VERIF_YAML_LIB, and a
VIOLATION whose replay reproduces on the patched copy and not on the real tree is required.

usage: selftest/seeded.py [--only c07a,c19a] [--runs N] [--tier quick] [--all-checks]
"""
import argparse
import json
import os
import re
import shutil
import subprocess
import sys
import tempfile

VERIF = os.path.dirname(os.path.dirname(os.path.abspath(__file__)))
REPO = os.environ.get('VERIF_REPO', '/repo')
SEEDED = os.path.join(VERIF, 'seeded')


def main():
    ap = argparse.ArgumentParser()
    ap.add_argument('--only')
    ap.add_argument('--runs', type=int)
    ap.add_argument('--tier', default='quick')
    ap.add_argument('--all-checks', action='store_true', help='run every built check, not only the one of the broken property')
    args = ap.parse_args()
    only = set(args.only.split(',')) if args.only else None
    missed = []
    built = sorted(f[:-3].upper() for f in os.listdir(os.path.join(VERIF, 'checks')) if re.match(r'c\d+\.py$', f))
    for sid in sorted(os.listdir(SEEDED)):
        d = os.path.join(SEEDED, sid)
        if not os.path.isdir(d) or (only and sid not in only):
            continue
        meta = json.load(open(os.path.join(d, 'meta.json')))
        prop = meta.get('expected_check') or meta['property']
        if meta.get('out_of_scope'):
            print('%-6s (%s) outside the property\'s quantifier: %s' % (sid, prop, meta['out_of_scope'][:120]))
            continue
        tmp = tempfile.mkdtemp(prefix='verif-seeded-%s-' % sid, dir='/tmp')
        try:
            shutil.copytree(os.path.join(REPO, 'lib'), os.path.join(tmp, 'lib'),
                            ignore=shutil.ignore_patterns('__pycache__', '*.egg-info'))
            r = subprocess.run(['patch', '-p1', '-s', '-i', os.path.join(d, 'patch.diff')], cwd=tmp, capture_output=True, text=True)
            if r.returncode != 0:
                print('%-6s patch does not apply: %s' % (sid, r.stdout + r.stderr))
                missed.append(sid)
                continue
            env = dict(os.environ, VERIF_YAML_LIB=os.path.join(tmp, 'lib'), VERIF_STOP_ON_VIOLATION='1')
            checks = built if args.all_checks else [prop]
            caught_by = []
            for chk in checks:
                if chk not in built:
                    print('%-6s %s: check not built yet' % (sid, chk))
                    continue
                cmd = [os.path.join(VERIF, 'check'), chk, '--tier', args.tier, '--no-selfcheck', '--no-evidence']
                if args.runs:
                    cmd += ['--runs', str(args.runs)]
                r = subprocess.run(cmd, env=env, capture_output=True, text=True)
                m = re.search(r'^VIOLATION property=(\S+) replay=(\S+)', r.stdout, re.M)
                cls = re.search(r'^violation class=(\S+)', r.stdout, re.M)
                ok = r.returncode == 1 and m is not None
                rep_mut = rep_real = None
                if ok:
                    rp = m.group(2)
                    rep_mut = subprocess.run([os.path.join(VERIF, 'check'), chk, '--replay', rp], env=env,
                                             capture_output=True, text=True).returncode
                    env2 = dict(os.environ)
                    env2.pop('VERIF_YAML_LIB', None)
                    rep_real = subprocess.run([os.path.join(VERIF, 'check'), chk, '--replay', rp], env=env2,
                                              capture_output=True, text=True).returncode
                    ok = rep_mut == 1 and rep_real == 0
                    for f in re.findall(r'^VIOLATION property=\S+ replay=(\S+)', r.stdout, re.M):
                        if os.path.exists(f):
                            os.unlink(f)
                print('%-6s (%s) check %s: %s (exit %d, class=%s, replay patched=%s, replay real=%s)' % (
                    sid, prop, chk, 'CAUGHT' if ok else 'quiet' if r.returncode == 0 else 'exit %d' % r.returncode,
                    r.returncode, cls.group(1) if cls else None, rep_mut, rep_real))
                if ok:
                    caught_by.append(chk)
                elif r.returncode not in (0, 1):
                    print(r.stdout[-1500:])
            if prop in built and prop not in caught_by:
                missed.append(sid)
        finally:
            shutil.rmtree(tmp, ignore_errors=True)
    if missed:
        print('MISSED: ' + ','.join(missed))
        return 1
    return 0


if __name__ == '__main__':
    sys.exit(main())
