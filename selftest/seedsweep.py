"""No-false-alarm sweep: every quick check under several VERIF_SEED values on the unchanged tree must
exit 0 (known findings allowed).  usage: selftest/seedsweep.py [--seeds 1,2,3] [--only C07,C10] [--runs N]"""
import argparse
import os
import re
import subprocess
import sys

VERIF = os.path.dirname(os.path.dirname(os.path.abspath(__file__)))


def main():
    ap = argparse.ArgumentParser()
    ap.add_argument('--seeds', default='1,2,3,4,5')
    ap.add_argument('--only')
    ap.add_argument('--runs', type=int)
    args = ap.parse_args()
    checks = sorted(f[:-3].upper() for f in os.listdir(os.path.join(VERIF, 'checks')) if re.match(r'c\d+\.py$', f))
    if args.only:
        checks = [c for c in checks if c in args.only.split(',')]
    bad = 0
    for seed in args.seeds.split(','):
        for c in checks:
            cmd = [os.path.join(VERIF, 'check'), c, '--tier', 'quick', '--no-evidence']
            if args.runs:
                cmd += ['--runs', str(args.runs)]
            r = subprocess.run(cmd, env=dict(os.environ, VERIF_SEED=seed), capture_output=True, text=True)
            last = [l for l in r.stdout.splitlines() if l.startswith(c + ' tier=')]
            print('seed=%s %s exit=%d %s' % (seed, c, r.returncode, last[-1][:200] if last else r.stdout[-400:]))
            sys.stdout.flush()
            if r.returncode != 0:
                bad += 1
                print(r.stdout[-3000:])
    return 1 if bad else 0


if __name__ == '__main__':
    sys.exit(main())
