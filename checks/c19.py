"""C19 - failures of the caller's stream or callbacks pass through cleanly.

Fault enumeration: for each case the fault-free execution records the invocation sequence of
the caller-owned seams (read / write+flush / constructor or representer callbacks / the
documents-events-nodes iterator); then one fresh execution per index of that sequence raises
an exception instance at exactly that invocation (kinds rotate through a pool that contains
every type the library itself catches somewhere).  Oracle per fault point: the object that
reaches the caller *is* the injected instance (type, args, __cause__, notes unchanged); what
the writer accepted / the generator yielded before the fault is a prefix of the fault-free
output; the immediately following fault-free execution and a fixed reference call give the
fault-free observation; the library's global state is unchanged.
"""
import errno
import sys
import types

from sim import corpus, kernel, observe, values
from sim import shrink as shr
from sim.streams import SimReader, SimWriter

PROPERTY = 'C19'
LEVEL = 'fault_enumeration'
CASE_TIMEOUT = 300
POINT_CAP = 1000
RULE = ('one evaluation = one execution of a case with an exception injected at one index of its read / write / flush / '
        'callback / iterator invocation sequence (all indices of the sequence are enumerated per case, capped at %d with '
        'first/last/seeded sample beyond), plus the fault-free follow-up; non-trivial = the fault fired; distinct = distinct '
        '(case digest, channel, index, exception kind)' % POINT_CAP)
DISTINCT_MEASURE = 'distinct (case, channel, invocation index, exception kind) fault points that fired'
ASSUMPTIONS = [
    'single fault per execution for the enumerated part; seeded sequences of 2-3 consecutive faulted calls in addition',
    'StopIteration / GeneratorExit are not injected (PEP 479 rewrites them inside generator frames: language semantics)',
    'an implicit __context__ set by an enclosing except clause of the library is tolerated; __cause__, args, notes are not',
    'LibYAML buffers output in 16 KiB blocks, so most C-emitter cases have 1-3 write invocations; large values are included to get more',
    'cases are exhaustive over their own invocation sequence, the set of cases is seeded (corpus + synthetic values/documents)',
]
STUBS = ['caller input/output streams (SimReader/SimWriter)', 'user constructors / representers / document iterables', 'user data class Pt']

EXC_KINDS = ['OSError', 'SimError', 'SimAbort', 'KeyboardInterrupt', 'MemoryError', 'IndexError', 'TypeError',
             'UnicodeDecodeError', 'UnicodeEncodeError', 'AttributeError', 'YAMLError', 'ReaderError', 'ValueError',
             'KeyError', 'EmitterError', 'ConstructorError', 'RepresenterError', 'AssertionError', 'ImportError',
             'RecursionError', 'SystemExit', 'InterruptedError', 'BlockingIOError', 'LookupError', 'EOFError', 'BufferError',
             'BrokenPipeError', 'ConnectionResetError', 'TimeoutError', 'PermissionError', 'FileNotFoundError',
             'MarkedConstructorError', 'MarkedScannerError']

# a plain function that raises StopIteration is not touched by PEP 479: from a representer (never called inside a
# generator frame of the library) it must pass through like any other exception
EXC_KINDS_REPRESENTER = EXC_KINDS + ['StopIteration']

DUMP_APIS = ['dump', 'dump_all', 'safe_dump', 'safe_dump_all', 'serialize', 'serialize_all', 'emit']
LOAD_APIS = ['load', 'load_all', 'compose', 'compose_all', 'parse', 'scan']
# the convenience wrappers are functions of their own (they take no Loader= / Dumper=): stream faults only
WRAP_LOAD = {'safe_load': 'load', 'safe_load_all': 'load_all', 'full_load': 'load', 'full_load_all': 'load_all',
             'unsafe_load': 'load', 'unsafe_load_all': 'load_all'}
DUMPERS = ['SafeDumper', 'Dumper', 'CSafeDumper', 'CDumper', 'BaseDumper', 'CBaseDumper']
LOADERS = ['SafeLoader', 'FullLoader', 'Loader', 'CSafeLoader', 'CFullLoader', 'CLoader', 'BaseLoader', 'CBaseLoader',
           'UnsafeLoader', 'CUnsafeLoader']


class SimError(Exception):
    pass


class SimAbort(BaseException):
    pass


def make_exc(kind, tag):
    import yaml
    if kind == 'OSError':
        return OSError(errno.EIO, 'simulated I/O error %s' % tag)
    if kind in ('BrokenPipeError', 'ConnectionResetError', 'TimeoutError', 'PermissionError', 'FileNotFoundError'):
        code = {'BrokenPipeError': errno.EPIPE, 'ConnectionResetError': errno.ECONNRESET, 'TimeoutError': errno.ETIMEDOUT,
                'PermissionError': errno.EACCES, 'FileNotFoundError': errno.ENOENT}[kind]
        return OSError(code, 'simulated %s %s' % (kind, tag))       # OSError(errno, ...) yields the subclass
    if kind == 'SimError':
        return SimError(tag)
    if kind == 'SimAbort':
        return SimAbort(tag)
    if kind == 'UnicodeDecodeError':
        return UnicodeDecodeError('utf-8', b'\xff', 0, 1, 'simulated ' + tag)
    if kind == 'UnicodeEncodeError':
        return UnicodeEncodeError('utf-8', '\udc80', 0, 1, 'simulated ' + tag)
    if kind == 'YAMLError':
        return yaml.YAMLError(tag)
    if kind == 'ReaderError':
        return yaml.reader.ReaderError('sim', 0, 0, 'sim', tag)
    if kind == 'EmitterError':
        return yaml.emitter.EmitterError(tag)
    if kind == 'ConstructorError':
        return yaml.constructor.ConstructorError(None, None, tag, None)
    if kind in ('MarkedConstructorError', 'MarkedScannerError'):
        # what a user callback raises when it reports a problem the way the library does: marks included (with and
        # without a buffer behind them)
        m1 = yaml.Mark('<sim>', 3, 1, 2, None, None)
        m2 = yaml.Mark('<sim>', 5, 1, 4, 'ab: cd ef\0', 5)
        cls = yaml.constructor.ConstructorError if kind == 'MarkedConstructorError' else yaml.scanner.ScannerError
        return cls('while simulating', m1, tag, m2, 'a note')
    if kind == 'RepresenterError':
        return yaml.representer.RepresenterError(tag)
    return {'KeyboardInterrupt': KeyboardInterrupt, 'MemoryError': MemoryError, 'IndexError': IndexError,
            'TypeError': TypeError, 'AttributeError': AttributeError, 'ValueError': ValueError, 'KeyError': KeyError,
            'AssertionError': AssertionError, 'ImportError': ImportError, 'RecursionError': RecursionError,
            'SystemExit': SystemExit, 'StopIteration': StopIteration, 'InterruptedError': InterruptedError,
            'BlockingIOError': BlockingIOError, 'LookupError': LookupError, 'EOFError': EOFError, 'BufferError': BufferError}[kind](tag)


def plan(tier):
    if tier == 'quick':
        return {'runs': 4000, 'wall': 300, 'batch': 4, 'shrink_s': 60, 'selfcheck': 6}
    return {'runs': 400000, 'wall': 2.5 * 3600, 'batch': 8, 'shrink_s': 120, 'selfcheck': 16}


# ---------------------------------------------------------------------------
# generation

def gen_opts(r, c_backend):
    o = {}
    if r.random() < 0.3:
        o['default_flow_style'] = r.choice([True, False, None])
    if r.random() < 0.15:
        o['canonical'] = True
    if r.random() < 0.2:
        o['indent'] = r.choice([2, 4, 7])
    if r.random() < 0.2:
        o['width'] = r.choice([20, 40, 200])
    if r.random() < 0.3:
        o['allow_unicode'] = True
    if r.random() < 0.15:
        o['line_break'] = r.choice(['\r', '\n', '\r\n'])
    if r.random() < 0.3:
        o['explicit_start'] = True
    if r.random() < 0.3:
        o['explicit_end'] = True
    if r.random() < 0.1:
        o['version'] = [1, 1]
    if r.random() < 0.1:
        o['tags'] = {'!e!': 'tag:example.com,2000:'}
    if r.random() < 0.15:
        o['default_style'] = r.choice(['"', "'", '|', '>'])
    if r.random() < 0.15:
        o['sort_keys'] = False
    return o


def generate(seed, tier):
    r = kernel.rng(seed, 'case')
    rv = kernel.rng(seed, 'values')
    side = 'dump' if r.random() < 0.5 else 'load'
    big = r.random() < 0.15
    custom = r.random() < 0.5
    ndocs = r.choice([1, 1, 2, 3])
    vals = []
    for _ in range(ndocs):
        g = values.Gen(rv, safe=True, custom=0.35 if custom else 0.0, depth=r.choice([1, 2, 3]), width=r.choice([2, 3, 4]))
        v = g.value(0)
        if custom:
            v = ['list', [v, ['pt', rv.randint(0, 9), rv.randint(0, 9)]] + ([['pt', 1, 2]] if rv.random() < 0.5 else []), 9000 + len(vals)]
            if ndocs > 1 and len(vals) < ndocs - 1 and rv.random() < 0.35:
                # an "open-ended" document (a root scalar: whether a '...' must follow is decided by what comes next)
                # right before a document whose representer / constructor can fail
                v = rv.choice([['str', 'abc'], ['int', 7], ['str', 'two words'], ['str', 'kept\n\n'], ['none'], ['str', '']])
        vals.append(v)
    case = {'side': side, 'values': vals, 'custom': custom, 'points': None, 'salt': r.randrange(1 << 30),
            'multi_callback': r.random() < 0.3, 'gen_callback': r.random() < 0.3, 'special': custom and r.random() < 0.4}
    if side == 'dump':
        api = r.choice(['dump', 'dump_all'] if custom else
                       ['dump', 'dump', 'dump_all', 'dump_all', 'safe_dump', 'safe_dump_all', 'serialize', 'serialize_all', 'serialize_all', 'emit', 'emit'])
        dumper = r.choice(DUMPERS)
        if api in ('safe_dump', 'safe_dump_all'):
            dumper = 'SafeDumper'
            custom = case['custom'] = False
            case['values'] = [values.Gen(rv, depth=2).value(0) for _ in range(1 if api == 'safe_dump' else ndocs)]
        if dumper in ('BaseDumper', 'CBaseDumper') and api in ('dump', 'dump_all'):
            api = 'serialize_all'
        big_py = (not big) and (not dumper.startswith('C')) and r.random() < 0.04
        if big_py:
            # several KiB of encoded output through the pure-Python emitter: thousands of write invocations, sampled
            case['values'][0] = ['list', [case['values'][0]] + [['str', 'filler %d %s' % (i, 'y' * (i % 40))] for i in range(rv.randint(350, 600))], 9998]
            case['point_cap'] = 48
        if big and dumper.startswith('C'):
            # LibYAML flushes in 16 KiB blocks: a large value gives several write invocations
            case['values'][0] = ['list', [case['values'][0]] + [['str', 'filler %d %s' % (i, 'x' * (i % 50))]
                                                               for i in range(rv.randint(600, 1500))], 9999]
        opts = gen_opts(r, dumper.startswith('C'))
        case['values'] = [values.hash_order_free(v, opts.get('sort_keys', True)) for v in case['values']]
        case.update(api=api, dumper=dumper, opts=opts,
                    stream={'kind': r.choice(['text', 'binary', 'text', 'binary', 'none', 'none', 'bytesio', 'stringio']), 'flush': r.random() < 0.7},
                    encoding=r.choice([None, None, 'utf-8', 'utf-16-le', 'utf-16-be']) if not case.get('point_cap') else r.choice(['utf-8', 'utf-8', 'utf-16-le']),
                    gen_docs=r.random() < 0.5)
        if api in ('dump', 'safe_dump', 'serialize'):
            case['values'] = case['values'][:1]
            case['gen_docs'] = False
        # genuine io objects (what open(path, 'wb') / io.StringIO() give): they cannot be made to fail, the faults come
        # from the callbacks and the documents iterator; what matters is the state the caller's stream is left in
        if case['stream']['kind'] == 'bytesio':
            case['encoding'] = r.choice(['utf-8', 'utf-8', 'UTF-8', 'utf8', 'utf-16-le'])
        elif case['stream']['kind'] == 'stringio':
            case['encoding'] = None
        case['path_resolvers'] = r.random() < 0.25
        case['special'] = bool(case['special'] and case['custom'] and api in ('dump', 'dump_all') and not dumper.endswith('BaseDumper'))
        return case
    case['values'] = [values.hash_order_free(v) for v in case['values']]
    api = r.choice(['load', 'load_all', 'load_all'] if custom else
                   ['load', 'load_all', 'load_all', 'compose', 'compose_all', 'parse', 'scan'])
    loader = r.choice(LOADERS)
    if r.random() < 0.3:
        label, text = corpus.pick_text(kernel.rng(seed, 'doc'), p_corpus=0.7)
        if len(text) > 2500:
            text = text[:2500]
        case.update(text=text, label=label, custom=False, values=[])
    if not custom and case.get('text') is None and r.random() < 0.25:
        api = r.choice(sorted(WRAP_LOAD))
        loader = {'s': 'SafeLoader', 'f': 'FullLoader', 'u': 'UnsafeLoader'}[api[0]]
    form = r.choice(['text', 'utf8', 'utf8', 'utf16le'])
    sk = r.random()
    if sk < 0.35:
        sched = {'sizes': [], 'then': r.choice([1, 2, 3, 5])}
    elif sk < 0.7:
        sched = {'sizes': [r.randint(1, 40) for _ in range(30)], 'then': r.choice([7, 64, 500])}
    else:
        sched = {'sizes': [], 'then': None}
    case.update(api=api, loader=loader, form=form, sizes=sched['sizes'], then=sched['then'], min_piece=1)
    if custom and case.get('text') is None and r.random() < 0.3:
        case['inmem'] = True       # the document is handed over as str / bytes: no stream, the failure points are the callbacks
    case['path_resolvers'] = api not in WRAP_LOAD and r.random() < 0.25
    if api not in WRAP_LOAD and case.get('text') is None and not loader.endswith('BaseLoader') and r.random() < 0.08:
        # one Loader object driven document by document over a long stream in which a user constructor fails every time
        # (a broken plug-in; the consumer skips such records and carries on)
        case.update(api='obj_stream', custom=True, ndocs=r.choice([30, 45, 60, 80]), nest=r.choice([1, 2, 4, 6, 9]), special=False)
    case['special'] = bool(case['special'] and case['custom'] and not loader.endswith('BaseLoader'))
    return case


def piece_floor(n_units):
    """Keep (number of reads) x (cost of one run) bounded: at most ~40000/n reads."""
    return max(1, (n_units * n_units) // 40000)


def describe(case):
    d = {k: case.get(k) for k in ('side', 'api', 'dumper', 'loader', 'opts', 'stream', 'encoding', 'gen_docs', 'custom',
                                  'form', 'then', 'label', 'points')}
    d['values'] = observe.jdump(case.get('values'))[:300]
    if case.get('text') is not None:
        d['text_head'] = case['text'][:120]
    return d


# ---------------------------------------------------------------------------
# world: harness-owned subclasses with logging / failing callbacks

class Plan:
    """What to inject in this execution: {(channel, index): exception instance}."""

    def __init__(self, faults=None):
        self.faults = dict(faults or {})
        self.counts = {'cb': 0, 'it': 0}
        self.fired = []

    def hit(self, channel):
        i = self.counts[channel]
        self.counts[channel] = i + 1
        exc = self.faults.get((channel, i))
        if exc is not None:
            self.fired.append((channel, i))
            raise exc


def make_world(yaml, case):
    """Fresh subclasses per execution (registrations never touch the shipped classes)."""
    world = {'plan': Plan()}
    Pt = values.Pt

    def rep_pt(dumper, data):
        world['plan'].hit('cb')
        return dumper.represent_mapping('!pt', {'x': data.x, 'y': data.y})

    def con_pt_plain(loader, node):
        world['plan'].hit('cb')
        m = loader.construct_mapping(node, deep=True)
        return Pt(m.get('x'), m.get('y'))

    def con_pt_gen(loader, node):
        # two-step constructor: both steps are invocations of user code
        world['plan'].hit('cb')
        p = Pt(None, None)
        yield p
        world['plan'].hit('cb')
        m = loader.construct_mapping(node, deep=True)
        p.x, p.y = m.get('x'), m.get('y')

    con_pt = con_pt_gen if case.get('gen_callback') else con_pt_plain

    def mcon(loader, suffix, node):
        if not getattr(world['plan'], 'leaf_only', False):
            world['plan'].hit('cb')
        if isinstance(node, yaml.ScalarNode):
            return [suffix, loader.construct_scalar(node)]
        if isinstance(node, yaml.SequenceNode):
            return [suffix, loader.construct_sequence(node, deep=True)]
        return [suffix, loader.construct_mapping(node, deep=True)]

    if case['side'] == 'dump' or case.get('values'):
        dname = case.get('dumper', 'SafeDumper')
        base = getattr(yaml, dname)
        D = type('SimDumper', (base,), {})
        if case.get('multi_callback'):
            D.add_multi_representer(Pt, rep_pt)
        else:
            D.add_representer(Pt, rep_pt)
        if case.get('path_resolvers'):
            add_path_resolvers(D)
        world['Dumper'] = D
    if case['side'] == 'load':
        base = getattr(yaml, case['loader'])
        L = type('SimLoader', (base,), {})
        if case.get('multi_callback'):
            L.add_multi_constructor('!p', lambda loader, suffix, node: con_pt(loader, node))
        else:
            L.add_constructor('!pt', con_pt)
        L.add_multi_constructor('!m/', mcon)
        if case.get('path_resolvers'):
            add_path_resolvers(L)
        world['Loader'] = L
    # caller-owned special methods are failure points too: __hash__ of a key object a user constructor returned,
    # __getstate__ / __setstate__ of a YAMLObject subclass
    if case.get('special'):
        class PKey:
            def __init__(self, name):
                self.name = name

            def __hash__(self):
                world['plan'].hit('cb')
                return hash(self.name)

            def __eq__(self, other):
                return type(other) is type(self) and other.name == self.name

        def getstate(self):
            world['plan'].hit('cb')
            return dict(self.__dict__)

        def setstate(self, state):
            world['plan'].hit('cb')
            self.__dict__.update(state)
        ns = {'yaml_tag': '!yobj', '__getstate__': getstate, '__setstate__': setstate,
              'yaml_loader': world.get('Loader') or type('NoLoader', (yaml.SafeLoader,), {}),
              'yaml_dumper': world.get('Dumper') or type('NoDumper', (yaml.SafeDumper,), {})}
        world['YObj'] = type(yaml.YAMLObject)('YObj', (yaml.YAMLObject,), ns)
        world['PKey'] = PKey
        if pyobj_case(case):
            # caller-owned code that the python/object tags run: the callable of !!python/object/apply, __init__ /
            # __setstate__ of !!python/object/new and !!python/object, __reduce_ex__ on the way out
            mod = types.ModuleType(PYMOD)

            def factory(*args, **kwds):
                world['plan'].hit('cb')
                return ['made', list(args), sorted(kwds)]

            class Obj:
                def __init__(self, *args, **kwds):
                    world['plan'].hit('cb')
                    self.args = list(args)

                def __setstate__(self, state):
                    world['plan'].hit('cb')
                    self.__dict__.update(state)

            class Red:
                def __init__(self, n=0):
                    self.n = n

                def __reduce_ex__(self, proto):
                    world['plan'].hit('cb')
                    return (Red, (self.n,), {'extra': [self.n, 'x']})
            for o in (factory, Obj, Red):
                o.__module__ = PYMOD
                o.__qualname__ = o.__name__
                setattr(mod, o.__name__, o)
            sys.modules[PYMOD] = mod
            world['Red'] = Red
        if 'Loader' in world:
            world['Loader'].add_constructor('!pk', lambda loader, node: PKey(loader.construct_scalar(node)))
    return world


PYMOD = 'verif_simworld'


def pyobj_case(case):
    return bool(case.get('special')) and ((case.get('dumper') in ('Dumper', 'CDumper') and case['side'] == 'dump') or
                                          (case.get('loader') in ('Loader', 'UnsafeLoader', 'CLoader', 'CUnsafeLoader') and case['side'] == 'load'))


def add_path_resolvers(cls):
    """Path resolvers that resolve to the standard tags (so that every document still loads / dumps): what they change is
    that the descend / ascend bookkeeping around every node is no longer idle."""
    cls.add_path_resolver('tag:yaml.org,2002:seq', [None], list)
    cls.add_path_resolver('tag:yaml.org,2002:map', [0], dict)
    cls.add_path_resolver('tag:yaml.org,2002:str', [None, 'note'], str)
    cls.add_path_resolver('tag:yaml.org,2002:seq', [1, None, (list, None)], list)


def c_needed(case):
    return (case.get('dumper') or '').startswith('C') or (case.get('loader') or '').startswith('C')


def prepare_payload(yaml, case, world):
    """Fault-free, pristine preparation of what the API under test receives."""
    vals = [values.build(v) for v in case.get('values', [])]
    if case.get('special') and case['side'] == 'dump':
        y = world['YObj'].__new__(world['YObj'])
        y.__dict__.update({'a': 1, 'b': [2, 'three']})
        vals = [[y, {'k': y}]] + vals if case['api'] == 'dump' else vals + [[y, {'k': y}]]
        if pyobj_case(case):
            vals[0 if case['api'] == 'dump' else -1].append([world['Red'](1), {'r': world['Red'](2)}])
    if case['side'] == 'dump':
        if case['api'] in ('serialize_all', 'serialize', 'emit'):
            text = yaml.dump_all(vals, Dumper=type('PrepDumper', (yaml.SafeDumper,), {}) if not case['custom'] else prep_dumper(yaml))
            if case['api'] in ('serialize_all', 'serialize'):
                return list(yaml.compose_all(text, Loader=yaml.SafeLoader))
            return list(yaml.parse(text, Loader=yaml.SafeLoader))
        return vals
    if case.get('text') is not None:
        return case['text']
    text = yaml.dump_all(vals, Dumper=prep_dumper(yaml), explicit_start=True, allow_unicode=True)
    if case.get('custom'):
        text += '--- !m/seq [1, !m/x y, !m/map {a: !pt {x: 1, y: 2}}]\n'
    if case.get('special'):
        text += '--- [!yobj {a: 1, b: [2]}, {!pk k1: 1, !pk k2: [!yobj {c: 3}]}]\n'
        if pyobj_case(case):
            text += ('--- [!!python/object/apply:%(m)s.factory [1, two], !!python/object/new:%(m)s.Obj {args: [1], state: {z: [1]}},\n'
                     '  !!python/object:%(m)s.Obj {q: 1}, !!python/object/apply:%(m)s.factory {args: [3], kwds: {k: !!python/object/new:%(m)s.Obj [5]}}]\n' % {'m': PYMOD})
    return text


def prep_dumper(yaml):
    D = type('PrepDumper', (yaml.SafeDumper,), {})
    D.add_representer(values.Pt, lambda d, p: d.represent_mapping('!pt', {'x': p.x, 'y': p.y}))
    return D


def run_once(yaml, case, world, payload, faults, sticky=False):
    """One execution.  Returns an observation dict.  sticky: the faulted stream keeps failing on
    every later call (a broken pipe / closed file stays broken)."""
    plan = Plan(faults)
    world['plan'] = plan
    obs = {'items': [], 'exc': None, 'returned': False}
    log = []
    if case['side'] == 'dump':
        wfault = [(i, e) for (ch, i), e in plan.faults.items() if ch == 'w']
        to_none = case['stream']['kind'] == 'none'     # stream=None: the library returns the text itself
        w = SimWriter('text' if to_none else case['stream']['kind'], case['stream']['flush'], fault=wfault[0] if wfault else None,
                      log=log, sticky=sticky)
        ws = None if to_none else w
        real_io = None
        if case['stream']['kind'] in ('bytesio', 'stringio'):
            import io
            real_io = ws = io.BytesIO() if case['stream']['kind'] == 'bytesio' else io.StringIO()
        returned = None
        api = case['api']
        opts = dict(case['opts'])
        if 'version' in opts:
            opts['version'] = tuple(opts['version'])
        D = world['Dumper']

        def docs():
            for d in payload:
                plan.hit('it')
                yield d
            plan.hit('it')           # the StopIteration step is an invocation too

        src = docs() if case.get('gen_docs') else payload
        try:
            if api == 'dump':
                returned = yaml.dump(payload[0], ws, Dumper=D, encoding=case['encoding'], **opts)
            elif api == 'safe_dump':
                returned = yaml.safe_dump(payload[0], ws, encoding=case['encoding'], **opts)
            elif api == 'dump_all':
                returned = yaml.dump_all(src, ws, Dumper=D, encoding=case['encoding'], **opts)
            elif api == 'safe_dump_all':
                returned = yaml.safe_dump_all(src, ws, encoding=case['encoding'], **opts)
            elif api == 'serialize':
                o = {k: v for k, v in opts.items() if k not in ('default_style', 'default_flow_style', 'sort_keys')}
                returned = yaml.serialize(payload[0], ws, Dumper=D, encoding=case['encoding'], **o)
            elif api == 'serialize_all':
                o = {k: v for k, v in opts.items() if k not in ('default_style', 'default_flow_style', 'sort_keys')}
                returned = yaml.serialize_all(src, ws, Dumper=D, encoding=case['encoding'], **o)
            else:
                o = {k: v for k, v in opts.items() if k in ('canonical', 'indent', 'width', 'allow_unicode', 'line_break')}
                returned = yaml.emit(src, ws, Dumper=D, **o)
            obs['returned'] = True
        except kernel.Hang:
            raise
        except BaseException as exc:
            obs['exc'] = exc
        if real_io is not None:
            if obs['exc'] is not None:
                # what happens when the caller lets go of the exception: the frames it refers to are released
                import traceback
                try:
                    traceback.clear_frames(obs['exc'].__traceback__)
                except RuntimeError:
                    pass
            try:
                obs['written'] = real_io.getvalue()
            except ValueError as exc2:
                obs['written'] = None
                obs['stream_closed'] = str(exc2)
            del ws
        else:
            obs['written'] = w.value() if not to_none else (returned if returned is not None else ('' if not case['encoding'] or case['api'] == 'emit' else b''))
        obs['n_w'] = w.calls
        obs['wlog'] = [(e[1], e[4]) for e in log]
    else:
        text = payload
        form = case['form']
        data = text if form == 'text' else (
            text.encode('utf-8') if form == 'utf8' else b'\xff\xfe' + text.encode('utf-16-le'))
        rfault = [(i, e) for (ch, i), e in plan.faults.items() if ch == 'r']
        floor = piece_floor(len(data))
        sizes = [max(k, floor) for k in (case.get('sizes') or ())]
        then = case.get('then')
        then = max(then, floor) if then is not None else None
        s = SimReader(data, sizes, then, fault=rfault[0] if rfault else None, log=log, sticky=sticky,
                      name='/srv/app/config.yaml' if case['salt'] % 3 == 0 else None)
        if case['salt'] % 5 < 2 and form == 'text':
            s.encoding = 'utf-8'         # what an open(path, encoding=...) text file advertises
        if case.get('inmem'):
            s = data
        api = case['api']
        L = world['Loader']
        try:
            if api in WRAP_LOAD:
                if WRAP_LOAD[api] == 'load':
                    obs['items'].append(canon('load', getattr(yaml, api)(s)))
                else:
                    for it in getattr(yaml, api)(s):
                        obs['items'].append(canon('load_all', it))
            elif api in ('load', 'compose'):
                res = getattr(yaml, api)(s, Loader=L)
                obs['items'].append(canon(api, res))
            else:
                for it in getattr(yaml, api)(s, Loader=L):
                    obs['items'].append(canon(api, it))
            obs['returned'] = True
        except kernel.Hang:
            raise
        except BaseException as exc:
            obs['exc'] = exc
        obs['n_r'] = getattr(s, 'calls', 0)
        obs['rlog'] = [(e[3], e[4]) for e in log]
    obs['n_cb'] = plan.counts['cb']
    obs['n_it'] = plan.counts['it']
    obs['fired'] = list(plan.fired) + [('w' if case['side'] == 'dump' else 'r', e[2]) for e in log if e[4] == 'RAISE']
    return obs


def canon(api, it):
    if api in ('scan', 'parse'):
        return observe.item(it, 0, with_encoding=True)
    if api in ('compose', 'compose_all'):
        return observe.node(it, 0)
    return observe.value(it)


def exc_summary(yaml, exc):
    if exc is None:
        return None
    return observe.error(exc) if isinstance(exc, yaml.YAMLError) else {'class': type(exc).__name__, 'args': repr(exc.args)[:200]}


def reference_call(yaml):
    a = yaml.safe_load('a: [1, 2.5, x]\nb: &k {c: ~}\nd: *k\n')
    b = yaml.safe_dump({'k': [1, 'two', None], 'z': {'y': 1.5}})
    c = [type(e).__name__ for e in yaml.parse('- x\n- {a: b}\n', Loader=yaml.SafeLoader)]
    return observe.digest([observe.value(a), b, c])


def enumerate_points(case, ref, seed_salt):
    pts = []
    if case['side'] == 'dump':
        pts += [('w', i) for i in range(ref['n_w'])]
    else:
        pts += [('r', i) for i in range(ref['n_r'])]
    pts += [('cb', i) for i in range(ref['n_cb'])]
    pts += [('it', i) for i in range(ref['n_it'])]
    sampled = False
    cap = case.get('point_cap') or POINT_CAP
    if len(pts) > cap:
        import random
        rr = random.Random(kernel.H(seed_salt, 'points'))
        edge = min(150, cap // 4)
        keep = set(pts[:edge] + pts[-edge:])
        if case['side'] == 'dump' and cap >= POINT_CAP:
            keep.update(('w', i) for i, (kind, _) in enumerate(ref['wlog']) if kind == 'flush')
            keep.update(('w', i - 1) for i, (kind, _) in enumerate(ref['wlog']) if kind == 'flush' and i)
        rest = [p for p in pts if p not in keep]
        keep.update(rr.sample(rest, max(0, min(len(rest), cap - len(keep)))))
        pts = [p for p in pts if p in keep]
        sampled = True
    return pts, sampled


class PersistentPlan(Plan):
    """The callback fails at every invocation whose index the pattern selects, each time with a fresh instance."""

    leaf_only = True      # the enclosing multi-constructors (which build their children at once, deep=True) work; the leaf fails

    def __init__(self, pattern, salt):
        Plan.__init__(self)
        self.pattern, self.salt, self.injected = pattern, salt, []

    def hit(self, channel):
        i = self.counts[channel]
        self.counts[channel] = i + 1
        sel = self.pattern == 'all' or (self.pattern == 'odd' and i % 2) or (self.pattern == 'first' and i < 40)
        if channel == 'cb' and sel:
            kind = EXC_KINDS[kernel.H(self.salt, 'persist', i) % len(EXC_KINDS)]
            exc = make_exc(kind, 'persistent#%d' % i)
            self.injected.append(exc)
            self.fired.append((channel, i))
            raise exc


def objstream_text(case):
    import random
    rr = random.Random(kernel.H(case['salt'], 'objstream'))
    docs = []
    for i in range(case['ndocs']):
        if rr.random() < 0.7:
            inner = '!pt {x: %d, y: %d}' % (i, i + 1)
            for d in range(case['nest']):
                # alternately plain collections (built in two steps) and collections of a user constructor that builds
                # its children at once (deep=True)
                inner = [('[%s]' % inner), ('!m/g [%s]' % inner), ('{k: %s}' % inner), ('!m/h {k: %s}' % inner)][(d + i) % 4]
            docs.append('--- [n%d, %s]\n' % (i, inner))
        else:
            docs.append('--- {n: %d, ok: [1, 2, {deep: [x, y]}], note: text}\n' % i)
    return ''.join(docs)


def drive_objstream(yaml, case, world, plan):
    """Loader(stream); while check_data(): get_data() - the consumer skips a record whose construction failed."""
    world['plan'] = plan
    text = objstream_text(case)
    form = case['form']
    data = text if form == 'text' else (text.encode('utf-8') if form == 'utf8' else b'\xff\xfe' + text.encode('utf-16-le'))
    floor = piece_floor(len(data))
    then = max(case.get('then') or 4096, floor)
    loader = world['Loader'](SimReader(data, [], then))
    results = []
    try:
        while len(results) < 2000:
            try:
                if not loader.check_data():
                    break
                results.append(['item', observe.value(loader.get_data())])
            except kernel.Hang:
                raise
            except BaseException as exc:
                results.append(['exc', exc])
                if isinstance(exc, yaml.YAMLError) and not isinstance(exc, yaml.constructor.ConstructorError) and \
                        not any(exc is e for e in getattr(plan, 'injected', ())):
                    break       # a scanner / parser / composer error of the library's own: the stream cannot be continued
    finally:
        loader.dispose()
    return results


def execute_objstream(yaml, case, out):
    world = make_world(yaml, case)
    gs0 = observe.global_state()
    ref = drive_objstream(yaml, case, world, Plan())
    out['evals'] += 1
    bad = [r for r in ref if r[0] != 'item']
    if bad or len(ref) != case['ndocs']:
        out['extra']['objstream_reference_not_clean'] = 1
        out['log'] = 'objstream-ref-' + (type(bad[0][1]).__name__ if bad else 'short')
        return out
    pattern = ['all', 'all', 'odd', 'first'][case['salt'] % 4]
    plan = PersistentPlan(pattern, case['salt'])
    got = drive_objstream(yaml, case, world, plan)
    out['evals'] += 1
    out['faults']['persistent-callback-fault:' + pattern] = len(plan.injected)
    out['probes']['object_api_documents_after_a_failed_one'] = sum(1 for i, r in enumerate(got) if any(q[0] == 'exc' for q in got[:i]))
    v = None
    injected = list(plan.injected)
    if len(got) != len(ref):
        v = {'class': 'stream-ends-early-after-callback-faults', 'detail': {'documents': len(got), 'reference': len(ref),
             'last': repr(got[-1][1])[:300] if got else None}}
    else:
        k = 0
        for j, (g, r) in enumerate(zip(got, ref)):
            if g[0] == 'exc':
                if k < len(injected) and g[1] is injected[k]:
                    k += 1
                    continue
                v = {'class': 'exception-replaced', 'detail': {'document': j, 'got': exc_summary(yaml, g[1]), 'failures_before': k,
                                                               'expected': repr(injected[k])[:200] if k < len(injected) else 'no failure planned for this document'}}
                break
            if g != r:
                v = {'class': 'document-differs-after-callback-faults', 'detail': {'document': j, 'failures_before': k}}
                break
    if v is None:
        again = drive_objstream(yaml, case, world, Plan())
        out['evals'] += 1
        if again != ref:
            v = {'class': 'follow-up-differs', 'detail': {'after': 'object-API stream with %d callback failures' % len(injected)}}
    if v is None and observe.global_state() != gs0:
        v = {'class': 'global-state-changed', 'detail': {'changed': observe.state_diff(gs0, observe.global_state())[:20]}}
    if v:
        out['violations'].append(v)
    out['sigs'].append(observe.digest([case['salt'], 'objstream', pattern]))
    out['log'] = observe.digest([[g[0], g[1] if g[0] == 'item' else type(g[1]).__name__] for g in got])
    out['sample'] = dict(describe(case), ndocs=case['ndocs'], failures=len(injected))
    return out


def execute(case):
    import yaml
    out = {'violations': [], 'evals': 0, 'probes': {}, 'faults': {}, 'sigs': [], 'extra': {}}
    if c_needed(case) and not getattr(yaml, '__with_libyaml__', False):
        out['extra']['c_backend_not_run'] = 1
        out['log'] = 'no-c'
        return out
    if case.get('api') == 'obj_stream':
        return execute_objstream(yaml, case, out)
    world = make_world(yaml, case)
    try:
        payload = prepare_payload(yaml, case, world)
    except yaml.YAMLError as exc:
        out['extra']['payload_not_preparable'] = 1
        out['log'] = 'prep-' + type(exc).__name__
        return out
    cdig = observe.digest([{k: v for k, v in case.items() if k != 'points'}])
    gs0 = observe.global_state()
    refcall0 = reference_call(yaml)
    ref = run_once(yaml, case, world, payload, {})
    out['evals'] += 1
    ref_exc = exc_summary(yaml, ref['exc'])
    ref_out = ref.get('written') if case['side'] == 'dump' else ref['items']
    logparts = [observe.digest([ref_out if not isinstance(ref_out, bytes) else ref_out.hex(), ref_exc]),
                ref.get('wlog') or ref.get('rlog'), ref['n_cb'], ref['n_it']]
    if case.get('points') is not None:
        pts, sampled = [tuple(p) for p in case['points']], False
    else:
        pts, sampled = enumerate_points(case, ref, case['salt'])
    out['extra']['cases_enumerated_exhaustively' if not sampled else 'cases_with_sampled_points'] = 1
    out['extra']['fault_points'] = len(pts)
    if case['side'] == 'dump':
        out['probes']['cases_with_ge_3_writes'] = 1 if ref['n_w'] >= 3 else 0
        out['probes']['flush_invocations_in_sequence'] = sum(1 for k, _ in ref['wlog'] if k == 'flush')
    else:
        out['probes']['cases_with_ge_3_reads'] = 1 if ref['n_r'] >= 3 else 0
    out['probes']['callback_points'] = ref['n_cb']
    out['probes']['iterator_points'] = ref['n_it']

    def check_follow_up(point, kind):
        again = run_once(yaml, case, world, payload, {})
        a_out = again.get('written') if case['side'] == 'dump' else again['items']
        if a_out != ref_out or exc_summary(yaml, again['exc']) != ref_exc:
            return {'class': 'follow-up-differs', 'detail': {'point': point, 'kind': kind,
                    'follow_up_exc': exc_summary(yaml, again['exc']), 'reference_exc': ref_exc,
                    'diff_at': first_diff(ref_out, a_out)}}
        if reference_call(yaml) != refcall0:
            return {'class': 'reference-call-differs', 'detail': {'point': point, 'kind': kind}}
        return None

    def one_fault(point, kind, injected):
        itype, iargs = type(injected), injected.args
        icause, isuppress = injected.__cause__, injected.__suppress_context__
        try:
            istr = str(injected)
        except Exception:
            istr = None
        istate = dict(vars(injected)) if hasattr(injected, '__dict__') else {}
        # every other stream fault point is sticky: the stream keeps failing after the injected call
        sticky = point[0] in ('r', 'w') and kernel.H(case['salt'], 'sticky', point[0], point[1]) % 2 == 1
        if sticky:
            out['faults']['sticky-stream'] = out['faults'].get('sticky-stream', 0) + 1
        res = run_once(yaml, case, world, payload, {point: injected}, sticky=sticky)
        out['evals'] += 1
        exc = res['exc']
        fired = point in res['fired']
        where = {'point': list(point), 'kind': kind, 'sticky': sticky}
        if fired:
            out['faults'][point[0] + ':' + kind] = out['faults'].get(point[0] + ':' + kind, 0) + 1
            out['sigs'].append(observe.digest([cdig, point, kind]))
        logparts.append([list(point), kind, fired, type(exc).__name__ if exc is not None else None])
        if not fired:
            if ref['exc'] is not None:
                return None         # the fault-free run ends in an error before reaching every index: nothing to check
            return {'class': 'fault-point-not-reached', 'detail': dict(where, counts=[res.get('n_w'), res.get('n_r'), res['n_cb'], res['n_it']])}
        if exc is None:
            return {'class': 'fault-swallowed', 'detail': dict(where, returned=res['returned'])}
        if exc is not injected:
            chain = []
            e = exc
            while e is not None and len(chain) < 5:
                chain.append(type(e).__name__)
                e = e.__cause__ or e.__context__
            return {'class': 'exception-replaced', 'detail': dict(where, got=exc_summary(yaml, exc), chain=chain)}
        if type(exc) is not itype or exc.args != iargs:
            return {'class': 'exception-mutated', 'detail': dict(where, args=repr(exc.args)[:200])}
        try:
            estr = str(exc)
        except Exception:
            estr = None
        if estr != istr:
            return {'class': 'exception-state-changed', 'detail': dict(where, str_before=(istr or '')[:200], str_after=(estr or '')[:200])}
        state = dict(vars(exc)) if hasattr(exc, '__dict__') else {}
        if set(state) != set(istate) or any(state[k] is not istate[k] and state[k] != istate[k] for k in state):
            changed = sorted(k for k in set(state) | set(istate) if k not in state or k not in istate or (state[k] is not istate[k] and state[k] != istate[k]))
            return {'class': 'exception-state-changed', 'detail': dict(where, attributes=changed)}
        if exc.__cause__ is not icause or exc.__suppress_context__ is not isuppress or getattr(exc, '__notes__', None):
            return {'class': 'exception-decorated', 'detail': dict(where, cause=repr(exc.__cause__), notes=getattr(exc, '__notes__', None))}
        if case['side'] == 'dump':
            wr = res['written']
            if res.get('stream_closed'):
                return {'class': 'caller-stream-closed-after-fault', 'detail': dict(where, error=res['stream_closed'])}
            if type(wr) is not type(ref_out) and wr:
                return {'class': 'written-type-differs', 'detail': where}
            if wr and not ref_out.startswith(wr):
                return {'class': 'written-not-prefix', 'detail': dict(where, written_tail=repr(wr[-80:]), diff_at=first_diff(ref_out, wr))}
            if point[0] == 'w':
                kinds = [k for k, st in res['wlog']]
                at = [j for j, (k, st) in enumerate(res['wlog']) if st == 'RAISE']
                if at and len(kinds) > at[0] + 1:
                    out['extra']['stream_calls_after_stream_fault'] = out['extra'].get('stream_calls_after_stream_fault', 0) + 1
        else:
            if res['items'] != ref_out[:len(res['items'])]:
                return {'class': 'yielded-not-prefix', 'detail': dict(where, diff_at=first_diff(ref_out, res['items']))}
        return None

    for n, point in enumerate(pts):
        kinds = EXC_KINDS_REPRESENTER if (point[0] == 'cb' and case['side'] == 'dump') else EXC_KINDS
        kind = kinds[kernel.H(case['salt'], point[0], point[1]) % len(kinds)]
        injected = make_exc(kind, '%s#%d' % point)
        if kernel.H(case['salt'], 'cause', point[0], point[1]) % 3 == 0:
            # what `raise StreamError(...) from os_error` in the caller's stream produces
            injected.__cause__ = OSError(errno.EIO, 'root cause of %s#%d' % point)
        v = one_fault(point, kind, injected)
        if v is None:
            v = check_follow_up(list(point), kind)
            out['evals'] += 1
        if v:
            out['violations'].append(v)
            break
    # seeded sequences of 2-3 consecutive faulted calls, then the fault-free call
    if not out['violations'] and len(pts) >= 2 and case.get('points') is None:
        import random
        rr = random.Random(kernel.H(case['salt'], 'seq'))
        for _ in range(min(6, len(pts))):
            seq = [pts[rr.randrange(len(pts))] for _ in range(rr.randint(2, 3))]
            v = None
            for point in seq:
                kind = EXC_KINDS[rr.randrange(len(EXC_KINDS))]
                injected = make_exc(kind, 'seq%s#%d' % point)
                v = one_fault(point, kind, injected)
                if v:
                    v['detail']['sequence'] = [list(p) for p in seq]
                    break
            if v is None:
                v = check_follow_up([list(p) for p in seq], 'sequence')
                out['evals'] += 1
            out['extra']['fault_sequences'] = out['extra'].get('fault_sequences', 0) + 1
            if v:
                out['violations'].append(v)
                break
    gs1 = observe.global_state()
    if gs1 != gs0:
        out['violations'].append({'class': 'global-state-changed', 'detail': {'changed': observe.state_diff(gs0, gs1)[:20]}})
    out['log'] = observe.digest(logparts)
    out['sample'] = dict(describe(case), fault_points=len(pts), invocations={
        'write_flush': ref.get('n_w'), 'read': ref.get('n_r'), 'callback': ref['n_cb'], 'iterator': ref['n_it']})
    return out


def first_diff(a, b):
    if a is None or b is None:
        return None
    if type(a) is not type(b):
        return 'type %s vs %s' % (type(a).__name__, type(b).__name__)
    for i, (x, y) in enumerate(zip(a, b)):
        if x != y:
            return i
    return min(len(a), len(b)) if len(a) != len(b) else None


# ---------------------------------------------------------------------------

def shrink(case):
    if case.get('points') is None:
        return
    if len(case['points']) > 1:
        for cand in shr.list_candidates(case['points'], 1):
            yield dict(case, points=cand)
    for i, v in enumerate(case.get('values', [])):
        if len(case['values']) > 1:
            yield dict(case, values=case['values'][:i] + case['values'][i + 1:])
    if case.get('opts'):
        for k in list(case['opts']):
            yield dict(case, opts={kk: vv for kk, vv in case['opts'].items() if kk != k})


def shrink_first(case, violation):
    """Reduce to the single failing fault point (called by the kernel before generic shrinking)."""
    d = violation.get('detail') or {}
    p = d.get('sequence') or ([d['point']] if d.get('point') else None)
    if p and isinstance(p[0], (list, tuple)):
        return dict(case, points=[list(x) for x in p])
    return None
