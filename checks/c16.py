"""C16 - dumping is deterministic and stable.

Simulated nondeterminism: hash randomisation (PYTHONHASHSEED of the interpreter that builds and
dumps the value), process identity (object addresses; represented_objects is keyed by id()) and
insertion order.  The same seeded value recipe is built and dumped in several persistent worker
interpreters that differ only in PYTHONHASHSEED, under several insertion permutations.
 hash     - the dumped text is byte-identical in every interpreter;
 order    - with sort_keys=True it is also identical for every insertion permutation of mappings
            and sets whose keys are mutually comparable; with sort_keys=False a loader of the text
            sees the keys of every mapping in insertion order;
 docorder - loading a dumped mapping preserves document order (dump(load(t), sort_keys=False) == t
            when the round trip is exact);
 redump   - dump(load(t)) is the same text in every interpreter, and equals t whenever the round
            trip load(t) == x is exact (guarded fixed point; anchors included in the text).
"""
import json
import os
import subprocess
import sys

from sim import build, kernel, observe, values

PROPERTY = 'C16'
LEVEL = 'exploration'
CASE_TIMEOUT = 120
HASHSEEDS = ['0', '1', '2', '3', '1234567', '4294967295']
# two more derived from VERIF_SEED, so that another seed also means other hash seeds
_BASE = int(os.environ.get('VERIF_SEED') or kernel.DEFAULT_SEED)
EXTRA_HASHSEEDS = [str(kernel.H(_BASE, 'hashseed', i) % (1 << 32)) for i in (1, 2)]
RULE = ('one evaluation = one dump of one (value recipe, insertion permutation, option set, dumper) in one worker interpreter '
        'with its own PYTHONHASHSEED; a case = 1 recipe x 3-4 hash seeds x 1-3 permutations; non-trivial = the value contains '
        'a mapping or set with at least two keys; distinct = distinct (recipe, options, dumper) digests among non-trivial cases')
DISTINCT_MEASURE = 'distinct (value recipe, option set, dumper) digests with at least one multi-key mapping or set'
ASSUMPTIONS = [
    'keys of one mapping / set are drawn from one mutually comparable family (int+float+bool without NaN and without equal values; str; bytes; dates; naive datetimes; aware datetimes), as the property requires',
    'with sort_keys=False values contain no sets (the iteration order of a set is hash-seed dependent and the property promises insertion order for mappings only)',
    'three families of values whose round trip is inexact on the unchanged tree keep an exactness guard on the fixed point (U+0085 / U+2028 / U+2029 in a string; width <= 20; folded style with a long text that has a line beginning with a blank); for everything else the fixed point is unconditional. Historical wording: the fixed point dump(load(dump(x))) == dump(x) is evaluated only when load(dump(x)) equals x type-strictly with sharing (where it does not, the difference is an inexact round trip, i.e. C02, a pure function of the input that this technique does not address); such cases are counted, not alarmed on',
    'worker interpreters are real CPython processes started with PYTHONHASHSEED set; object addresses are additionally shifted by a seeded amount of junk allocation',
    'load order of mappings is a pure function of the input; it is sampled on the same runs (docorder / order clauses) because it costs nothing there',
]
STUBS = ['value recipes (sim/values.py)', 'nothing else: dumpers, loaders and both back-ends are the real code in fresh interpreters']

KEY_STRS = ['a', 'b', 'c', 'key', 'k1', 'k2', 'zeta', 'Alpha', 'alpha', 'x y', 'yes', 'no', 'null', '~', '1', '10', '2', '1.5',
            '0x1F', '2001-01-01', 'a: b', '- x', '#c', "it's", 'café', '中文', '\U0001F600', '', ' ', 'UPPER',
            'multi\nline', 'tab\there', 'x' * 70, '<<', '=', '!t', '&a', '*a', '[', '{', 'true', 'on', 'off', 'N', 'y',
            'cafe\u0301', '\u212b', '\uff21b', '\ufb01n', 'stra\u00dfe', '\u01c5', 'e\u0301\u0323', '\u1e69']


def plan(tier):
    if tier == 'quick':
        return {'runs': 16000, 'wall': 300, 'batch': 16, 'shrink_s': 60, 'selfcheck': 6}
    return {'runs': 3000000, 'wall': 2.5 * 3600, 'batch': 32, 'shrink_s': 120, 'selfcheck': 16}


# ---------------------------------------------------------------------------
# generation: recipes in the vocabulary of sim/values.py, homogeneous key families

class Gen:
    def __init__(self, r, sets=True, tuples=False, depth=3, width=5, share=0.15, mixed=False):
        self.r, self.sets, self.tuples, self.maxdepth, self.width, self.share = r, sets, tuples, depth, width, share
        self.mixed = mixed       # sort_keys off: the keys of one mapping need not be mutually comparable
        self.n = 0
        self.open, self.done = [], []
        self.multi = 0
        self.base = values.Gen(r)
        self.scalars = []        # scalars produced so far: equal-but-distinct leaves are reused on purpose
        self.keypool = {}        # family -> keys produced so far (the same key in several mappings)

    def keys(self, family, k):
        r = self.r
        out, seen = [], []

        def add(rc, pyval=None):
            pyval = values.build(rc)          # the key as Python sees it: equal keys would collide in the mapping
            if any(pyval == s for s in seen):
                return
            seen.append(pyval)
            out.append(rc)
            if rc[0] != 'tuple' and len(self.keypool[family]) < 12:
                self.keypool[family].append((rc, pyval))
        pool = self.keypool.setdefault(family, [])
        for _ in range(k * 2):
            if len(out) >= k:
                break
            if pool and r.random() < 0.3:
                rc, pv = r.choice(pool)
                add(list(rc), pv)
                continue
            if out and r.random() < 0.3:
                # a neighbour of a key that is already there: differs in the least significant component only
                nb = neighbour(r, out[-1])
                if nb is not None:
                    add(nb)
                    continue
            if family == 'str':
                s = r.choice(KEY_STRS)
                if r.random() < 0.04:
                    # a key of several hundred characters, most of which the emitter has to escape or quote (limits counted
                    # in characters of the value on one side and of the written text on the other)
                    s = r.choice(['\u00e9', '\u043a', "'", 'a', '"', '\\', '\u4e2d', '\u00a0', ' x', '\U0001F600', 'ab-']) * r.choice([130, 200, 300, 520, 700, 1030]) + r.choice(['', 'z'])
                add(['str', s], s)
            elif family == 'num':
                x = r.random()
                if x < 0.6:
                    v = r.choice([0, 1, -1, 2, 7, 10, 42, 255, -1000, 10 ** 12, 2 ** 64, r.randint(-50, 50)])
                    add(['int', v], v)
                elif x < 0.9:
                    fs = r.choice(['0.5', '1.5', '-2.25', '1e+100', '1e-07', 'inf', '-inf', '3.14159', '2.0', '-0.0'])
                    add(['float', fs], float(fs))
                else:
                    b = r.random() < 0.5
                    add(['bool', b], b)
            elif family == 'bytes':
                b = bytes(r.randrange(256) for _ in range(r.randint(0, 6)))
                add(['bytes', b.hex()], b)
            elif family == 'date':
                d = [r.randint(1, 9999), r.randint(1, 12), r.randint(1, 28)]
                add(['date'] + d, tuple(d))
            elif family == 'datetime':
                d = [r.randint(1, 9999), r.randint(1, 12), r.randint(1, 28), r.randint(0, 23), r.randint(0, 59), r.randint(0, 59),
                     r.choice([0, 0, 500000, 123456, r.randrange(1000000), r.randrange(1000000), r.randrange(1000)])]
                add(['datetime'] + d + [None], tuple(d))
            elif family == 'awaredt':
                d = [r.randint(2, 9998), r.randint(1, 12), r.randint(1, 28), r.randint(0, 23), r.randint(0, 59), r.randint(0, 59),
                     r.choice([0, 0, 500000, r.randrange(1000000), r.randrange(1000)]), r.choice([0, 60, -330, 120])]
                # equal instants compare equal whatever the offset: key on the instant
                inst = (d[0], d[1], d[2], d[3] * 60 + d[4] - d[7], d[5], d[6])
                add(['datetime'] + d, inst)
            elif family == 'tuple':
                t = [r.randint(0, 3) for _ in range(r.randint(0, 3))]
                add(['tuple', [['int', e] for e in t], 100000 + self.n * 100 + len(out)], tuple(t))
        return out

    def family(self):
        fams = ['str'] * 8 + ['num'] * 4 + ['bytes', 'date', 'datetime', 'awaredt']
        if self.tuples:
            fams += ['tuple'] * 2
        return self.r.choice(fams)

    def value(self, depth=0):
        r = self.r
        x = r.random()
        if (self.done or self.open) and x < self.share and depth > 0:
            pool = self.done + (self.open if r.random() < 0.5 else [])
            if pool:
                return ['ref', r.choice(pool)]
        if depth >= self.maxdepth or (x < 0.4 and depth > 0):
            if self.scalars and r.random() < 0.25:
                i = r.randrange(len(self.scalars))
                if r.random() < 0.5:
                    return list(self.scalars[i])              # an equal but distinct leaf
                return ['shared', i, list(self.scalars[i])]   # the same leaf object once more
            sc = self.base.scalar()
            self.scalars.append(sc)
            return sc if r.random() < 0.7 else ['shared', len(self.scalars) - 1, sc]
        cid = self.n
        self.n += 1
        self.open.append(cid)
        k = r.randint(0, self.width)
        y = r.random()
        if y < 0.25:
            out = [r.choice(['list', 'list', 'tuple']), [self.value(depth + 1) for _ in range(k)], cid]
        elif y < 0.8 or not self.sets:
            if self.mixed and r.random() < 0.5:
                ks, seen = [], []
                for _ in range(k):
                    for key in self.keys(self.family(), 1):
                        pv = values.build(key)
                        if not any(pv == q and type(pv) is type(q) or (pv == q) for q in seen):
                            seen.append(pv)
                            ks.append(key)
                r.shuffle(ks)
            else:
                ks = self.keys(self.family(), k)
            out = ['dict', [[key, self.value(depth + 1)] for key in ks], cid]
            if len(ks) > 1:
                self.multi += 1
        else:
            fam = self.family()
            ks = self.keys('str' if (fam == 'tuple' or r.random() < 0.5) else fam, k)
            out = ['set', ks, cid]
            if len(ks) > 1:
                self.multi += 1
        self.open.remove(cid)
        self.done.append(cid)
        return out


def neighbour(r, rc):
    t = rc[0]
    if t == 'datetime':
        nb = list(rc)
        which = r.choice(['us', 'us', 's'])
        if which == 'us':
            nb[7] = r.choice([u for u in (0, 1, 999999, 500000, 123456) if u != rc[7]])
        else:
            nb[6] = (rc[6] + 1) % 60
        return nb
    if t == 'date':
        return ['date', rc[1], rc[2], rc[3] % 28 + 1]
    if t == 'str':
        v = rc[1]
        cands = [v + ' ', v.upper(), v.lower(), v + '0', '0' + v, v + v[-1:], v[:-1]]
        # twins under the equivalences a "smarter" collation might apply: canonical / compatibility normalisation, case
        # folding - distinct keys all the same, and their order must be a function of the keys
        import unicodedata
        tw = [unicodedata.normalize(f, v) for f in ('NFC', 'NFD', 'NFKC', 'NFKD')] + [v.casefold(), v.swapcase()]
        tw = [x for x in tw if x != v]
        if tw and r.random() < 0.6:
            return ['str', r.choice(tw)]
        return ['str', r.choice(cands)]
    if t == 'int':
        return r.choice([['int', rc[1] + 1], ['int', -rc[1]], ['float', repr(rc[1] + 0.5)]])
    if t == 'float':
        return ['float', repr(float(rc[1]) + 0.25)] if rc[1] not in ('inf', '-inf', 'nan') else None
    if t == 'bytes':
        return ['bytes', rc[1] + r.choice(['00', 'ff', '20'])]
    return None


def equal_variant(r, rc):
    """The same recipe with some scalars replaced by values that are == but of another type / sign
    (1, True, 1.0; 0, False, 0.0, -0.0): an equal value with a different text."""
    t = rc[0]
    if t in ('int', 'bool', 'float'):
        try:
            v = values.build(rc)
            if v == 1 and r.random() < 0.7:
                return r.choice([['int', 1], ['bool', True], ['float', '1.0']])
            if v == 0 and r.random() < 0.7:
                return r.choice([['int', 0], ['bool', False], ['float', '0.0'], ['float', '-0.0']])
            if t == 'int' and r.random() < 0.3:
                return ['float', repr(float(v))] if abs(v) < 2 ** 53 else rc
            if t == 'float' and float(v).is_integer() and abs(v) < 2 ** 53 and r.random() < 0.3:
                return ['int', int(v)]
        except (ValueError, OverflowError):
            pass
        return rc
    if t in ('list', 'tuple', 'set'):
        return [t, [equal_variant(r, x) for x in rc[1]], rc[2]]
    if t == 'dict':
        return [t, [[equal_variant(r, k), equal_variant(r, x)] for k, x in rc[1]], rc[2]]
    if t == 'shared':
        return [t, rc[1], equal_variant(r, rc[2])]
    return rc


def gen_opts(r, c_backend):
    o = {}
    if r.random() < 0.4:
        o['default_flow_style'] = r.choice([True, False, None])
    if r.random() < 0.1:
        o['canonical'] = True
    if r.random() < 0.2:
        o['indent'] = r.choice([2, 3, 4, 7])
    if r.random() < 0.2:
        o['width'] = r.choice([20, 40, 80, 200])
    if r.random() < 0.4:
        o['allow_unicode'] = True
    if r.random() < 0.1:
        o['line_break'] = r.choice(['\r', '\n', '\r\n'])
    if r.random() < 0.2:
        o['explicit_start'] = True
    if r.random() < 0.15:
        o['explicit_end'] = True
    if r.random() < 0.1:
        o['version'] = [1, 1]
    if r.random() < 0.15:
        o['default_style'] = r.choice(['"', "'", '|', '>'])
    return o


def generate(seed, tier):
    r = kernel.rng(seed, 'case')
    rv = kernel.rng(seed, 'value')
    dumper = r.choice(['SafeDumper', 'SafeDumper', 'CSafeDumper', 'CSafeDumper', 'Dumper', 'CDumper'])
    sort_keys = r.random() < 0.7
    g = Gen(rv, sets=sort_keys, tuples=dumper in ('Dumper', 'CDumper'), depth=r.choice([1, 2, 3, 4]), width=r.choice([2, 4, 6, 9]),
            share=r.choice([0.0, 0.15, 0.3]), mixed=not sort_keys)
    recipe = g.value(0)
    if sort_keys and r.random() < 0.04:
        # the value comes after K small mappings whose keys are NOT mutually comparable (their order legitimately falls back
        # to insertion order, which is kept fixed here): that must not change how the comparable-key mappings after them
        # are written, however many there are
        k = r.choice([1, 5, 31, 32, 33, 40, 64, 100])
        mixed = [['dict', [[['int', i], ['int', 1]], [['str', 'k%d' % i], ['int', 2]]], values.FIXED_ORDER_IDS[0] + i] for i in range(k)]
        recipe = ['list', mixed + [recipe], values.FIXED_ORDER_IDS[0] + 5000]
    opts = gen_opts(r, dumper.startswith('C'))
    if not sort_keys:
        opts['sort_keys'] = False
    elif r.random() < 0.3:
        opts['sort_keys'] = True
    nperm = r.choice([1, 2, 3, 3])
    perms = [0] + [r.randrange(1, 1 << 20) for _ in range(nperm - 1)]
    hs = r.sample(HASHSEEDS + EXTRA_HASHSEEDS, r.choice([3, 3, 4]))
    # what each interpreter has dumped before (same dumper, same options): nothing, an ==-equal variant of the
    # value, or something unrelated - the text of the value itself must not depend on it
    rp = kernel.rng(seed, 'primes')
    primes = []
    for _ in hs:
        x = rp.random()
        if x < 0.4:
            primes.append([])
        elif x < 0.5:
            # the same value (or an ==-equal variant) was dumped before under OTHER options and possibly by another dumper
            # class: what a dump writes under these options must not depend on it (option-blind memos)
            alt = gen_opts(rp, dumper.startswith('C'))
            flip = rp.choice(['allow_unicode', 'allow_unicode', 'canonical', 'default_flow_style', 'width', 'default_style', 'sort_keys', 'indent'])
            if flip in ('allow_unicode', 'canonical'):
                alt[flip] = not opts.get(flip, False)
            elif flip == 'sort_keys':
                alt[flip] = not opts.get(flip, True)
            elif flip == 'default_flow_style':
                alt[flip] = rp.choice([v for v in (True, False, None) if v != opts.get(flip, False)])
            elif flip == 'width':
                alt[flip] = rp.choice([v for v in (20, 40, 80, 200) if v != opts.get(flip, 80)])
            elif flip == 'indent':
                alt[flip] = rp.choice([v for v in (2, 3, 4, 7) if v != opts.get(flip, 2)])
            else:
                alt[flip] = rp.choice([v for v in ('"', "'", '|', '>') if v != opts.get(flip)])
            odumper = dumper if rp.random() < 0.6 else rp.choice(['SafeDumper', 'CSafeDumper'] + (['Dumper', 'CDumper'] if dumper in ('Dumper', 'CDumper') else []))
            primes.append([['other', recipe if rp.random() < 0.7 else equal_variant(rp, recipe), {'opts': alt, 'dumper': odumper}]])
        elif x < 0.8:
            primes.append([equal_variant(rp, recipe)])
        elif x < 0.83:
            # a dump cut short by a failing write() after anchors were handed out (same value, or one with shared parts)
            primes.append([['failwrite', recipe if rp.random() < 0.6 else ['list', [['shared', 1, ['list', [['int', 1]], 990001]], ['shared', 1, ['list', [['int', 1]], 990001]],
                                                                                    ['shared', 2, ['dict', [[['str', 'k'], ['int', 2]]], 990002]], ['shared', 2, ['dict', [[['str', 'k'], ['int', 2]]], 990002]]], 990000],
                            rp.choice([0, 1, 3, 8, 20, 50])]])
        elif x < 0.86:
            # a stream-less dump that fails half-way (the second document cannot be represented) after text was produced
            primes.append([['fail', equal_variant(rp, recipe) if rp.random() < 0.5 else recipe]])
        elif x < 0.93:
            # the very object that is dumped afterwards was first dumped while it held something unrepresentable (the dump
            # failed), then repaired in place
            primes.append([['failsame']])
        else:
            primes.append([Gen(rp, sets=sort_keys, depth=2, width=3).value(0), equal_variant(rp, recipe)])
    case = {'recipe': recipe, 'perms': perms, 'hashseeds': hs, 'opts': opts, 'dumper': dumper, 'junk': r.randrange(0, 2000),
            'multi': g.multi, 'primes': primes}
    # the neighbours of the value inside one dump_all stream / one document: an ==-equal variant (1 / True / 1.0, 0 / False /
    # -0.0) or nothing special - the text of the value must depend on its own contents only
    if rp.random() < 0.6:
        case['sibling'] = equal_variant(rp, recipe)
    if r.random() < 0.2:
        # document order on load, for a mapping as a person would write it (plain keys that a dumper would quote)
        rh = kernel.rng(seed, 'handdoc')
        pool = ['=', 'yes', 'no', '~', 'null', 'true', 'on', '1', '0x1F', '1.5', '2001-01-01', 'a', 'b', 'zeta', 'Alpha', 'key',
                '10', '010', '1e3', '.inf', '-1', '+1', 'y', 'n', 'x y', 'k2', '1_000', '0b11', '190:20:30']
        case['handdoc'] = {'keys': rh.sample(pool, rh.randint(2, 7)), 'style': rh.choice(['block', 'block', 'flow']),
                           'loader': rh.choice(['SafeLoader', 'CSafeLoader', 'FullLoader', 'CFullLoader', 'BaseLoader'])}
    return case


def describe(case):
    return {'dumper': case['dumper'], 'opts': case['opts'], 'perms': case['perms'], 'hashseeds': case['hashseeds'],
            'recipe': observe.jdump(case['recipe'])[:400]}


# ---------------------------------------------------------------------------
# worker interpreters

_children = {}


def child(hs):
    p = _children.get(hs)
    if p is not None and p.poll() is None:
        return p
    st = build.prepare()
    env = dict(os.environ, PYTHONHASHSEED=hs, VERIF_YAML_PATH=st['path'])
    # the process environment differs too: half of the interpreters run in the C locale without UTF-8 mode
    if (HASHSEEDS + EXTRA_HASHSEEDS).index(hs) % 2:
        env.update(LC_ALL='C', LANG='C', PYTHONUTF8='0', PYTHONCOERCECLOCALE='0')
    else:
        env.update(LC_ALL='C.UTF-8', LANG='C.UTF-8', PYTHONUTF8='1')
    p = subprocess.Popen([sys.executable, '-B', os.path.join(kernel.VERIF, 'sim', 'hashworker.py')], env=env,
                         stdin=subprocess.PIPE, stdout=subprocess.PIPE, text=True, bufsize=1)
    _children[hs] = p
    return p


def ask(hs, req):
    p = child(hs)
    try:
        p.stdin.write(json.dumps(req) + '\n')
        p.stdin.flush()
        line = p.stdout.readline()
    except (BrokenPipeError, OSError):
        line = ''
    if not line:
        rc = p.poll()
        _children.pop(hs, None)
        return {'crash': rc}
    ans = json.loads(line)
    if 'harness_error' in ans:
        raise RuntimeError('hash worker failed:\n' + ans['harness_error'])
    return ans


def execute(case):
    try:
        return _execute(case)
    except kernel.Hang:
        # a worker interpreter is stuck: it must not serve the next case
        for hs, p in list(_children.items()):
            try:
                p.kill()
            except OSError:
                pass
            _children.pop(hs, None)
        raise


def _execute(case):
    import yaml
    out = {'violations': [], 'evals': 0, 'probes': {}, 'faults': {}, 'sigs': [], 'extra': {}}
    if case['dumper'].startswith('C') and not getattr(yaml, '__with_libyaml__', False):
        out['extra']['c_backend_not_run'] = 1
        out['log'] = 'no-c'
        return out
    req = {'recipe': case['recipe'], 'perms': case['perms'], 'opts': case['opts'], 'dumper': case['dumper']}
    if case.get('handdoc'):
        req['handdoc'] = case['handdoc']
    if case.get('sibling') is not None:
        req['sibling'] = case['sibling']
    answers = {}
    primes = case.get('primes') or []
    for i, hs in enumerate(case['hashseeds']):
        a = ask(hs, dict(req, junk=(case.get('junk', 0) * (i + 1)) % 2000, primes=primes[i] if i < len(primes) else []))
        if 'crash' in a:
            out['violations'].append({'class': 'crash', 'detail': {'hashseed': hs, 'exit': a['crash']}})
            out['log'] = 'crash'
            return out
        if a.get('hashseed') != hs:
            raise RuntimeError('worker runs under PYTHONHASHSEED=%r, expected %r' % (a.get('hashseed'), hs))
        answers[hs] = a
        out['evals'] += len(case['perms']) * 2
    hs0 = case['hashseeds'][0]
    a0 = answers[hs0]
    sort_keys = case['opts'].get('sort_keys', True)
    out['faults']['hash-seed-change'] = len(case['hashseeds']) - 1
    out['faults']['process-change'] = len(case['hashseeds']) - 1
    out['faults']['insertion-permutation'] = (len(case['perms']) - 1) * len(case['hashseeds'])
    out['faults']['different-dump-history'] = sum(1 for p in primes if p)
    out['faults']['same-value-dumped-before-under-other-options'] = sum(1 for p in primes if p and p[0] and p[0][0] == 'other')
    if len(set(a['set_order'] for a in answers.values())) > 1:
        out['probes']['set_iteration_order_differed_between_interpreters'] = 1
    if case.get('multi'):
        out['sigs'].append(observe.digest([case['recipe'], case['opts'], case['dumper']]))
    v = None
    # hash / process: same permutation, different interpreter
    for hs, a in answers.items():
        for n, perm in enumerate(case['perms']):
            if a['texts'][n] != a0['texts'][n]:
                v = {'class': 'text-depends-on-hash-seed-or-process', 'detail': {
                    'perm': perm, 'hashseeds': [hs0, hs], 'texts': [clip(a0['texts'][n]), clip(a['texts'][n])]}}
                break
        if v:
            break
    # insertion order
    if v is None and sort_keys:
        for hs, a in answers.items():
            for n, perm in enumerate(case['perms']):
                if a['texts'][n] != a['texts'][0]:
                    v = {'class': 'text-depends-on-insertion-order', 'detail': {
                        'hashseed': hs, 'perms': [0, perm], 'texts': [clip(a['texts'][0]), clip(a['texts'][n])]}}
                    break
            if v:
                break
    if v is None and not sort_keys:
        for hs, a in answers.items():
            for n, perm in enumerate(case['perms']):
                verdict = a['order'][n]
                if verdict is None:
                    out['extra']['order_not_evaluated_inexact_keys'] = out['extra'].get('order_not_evaluated_inexact_keys', 0) + 1
                elif verdict is False:
                    v = {'class': 'key-order-differs-from-insertion-order', 'detail': {'hashseed': hs, 'perm': perm, 'text': clip(a['texts'][n])}}
                    break
                else:
                    out['probes']['insertion_order_confirmed'] = out['probes'].get('insertion_order_confirmed', 0) + 1
            if v:
                break
    # anchors (and the rest of the text) are a function of the document alone
    if v is None:
        for hs, a in answers.items():
            out['probes']['multi_document_streams'] = out['probes'].get('multi_document_streams', 0) + 1
            if a.get('multidoc'):
                v = {'class': 'document-text-depends-on-earlier-documents', 'detail': dict(a['multidoc'], hashseed=hs, text=clip(a['texts'][0]))}
                break
    if v is None and case.get('handdoc'):
        out['probes']['hand_written_mappings_loaded'] = 1
        for hs, a in answers.items():
            if a.get('handdoc'):
                v = {'class': 'load-order-differs-from-document-order', 'detail': dict(a['handdoc'], hashseed=hs, loader=case['handdoc']['loader'])}
                break
    # re-dump stability
    if v is None:
        reds = {hs: a.get('redump') for hs, a in answers.items()}
        if len(set(observe.jdump(x) for x in reds.values())) > 1:
            v = {'class': 'redump-depends-on-hash-seed-or-process', 'detail': {h: clip(x) for h, x in reds.items()}}
    if v is None:
        # the two families of values whose round trip is known to be inexact on the unchanged tree (C02 territory;
        # measured on 660 000 cases: every fixed-point failure was one of them) keep the exactness guard; for all
        # other values the fixed point is required unconditionally
        guarded = known_inexact_family(case)
        for hs, a in answers.items():
            if a.get('exact') or (not guarded and 'redump' in a):
                key = 'round_trip_exact' if a.get('exact') else 'fixed_point_required_although_round_trip_inexact'
                out['probes'][key] = out['probes'].get(key, 0) + 1
                if a.get('redump') != a['texts'][0]:
                    v = {'class': 'not-a-fixed-point', 'detail': {'hashseed': hs, 'round_trip_exact': bool(a.get('exact')),
                                                                'text': clip(a['texts'][0]), 'redump': clip(a.get('redump'))}}
                    break
                if a.get('docorder') is False:
                    v = {'class': 'load-order-differs-from-document-order', 'detail': {'hashseed': hs, 'text': clip(a['texts'][0])}}
                    break
            else:
                out['extra']['round_trip_inexact_fixed_point_not_evaluated'] = out['extra'].get('round_trip_inexact_fixed_point_not_evaluated', 0) + 1
    if v:
        out['violations'].append(v)
    out['log'] = observe.digest([[answers[h]['texts'], answers[h].get('redump'), answers[h].get('exact')] for h in case['hashseeds']])
    out['sample'] = dict(describe(case), text=clip(a0['texts'][0]))
    return out


def known_inexact_family(case):
    """True iff the case belongs to one of the two families for which load(dump(x)) != x on the unchanged tree:
    strings containing U+0085 / U+2028 / U+2029 (written raw under allow_unicode and normalised by the scanner), and
    very narrow output (width <= 20: folded scalars)."""
    w = case['opts'].get('width')
    if w is not None and w <= 20:
        return True
    folded = case['opts'].get('default_style') == '>'
    stack = [case['recipe']]
    while stack:
        rc = stack.pop()
        if isinstance(rc, list):
            if rc and rc[0] == 'str' and isinstance(rc[1], str):
                if any(ch in rc[1] for ch in '\x85\u2028\u2029'):
                    return True
                # third family (found when long keys joined the universe): a text longer than a line with a line that
                # begins with a blank, written in folded style - the emitter folds inside a "more indented" line, whose
                # breaks the scanner keeps: ' x' * 100 comes back with line feeds in it, on both back-ends (C02 territory)
                if folded and len(rc[1]) > 30 and any(l[:1] in (' ', '\t') for l in rc[1].split('\n')):
                    return True
            stack.extend(x for x in rc if isinstance(x, list))
    return False


def clip(t):
    if isinstance(t, str) and len(t) > 600:
        return t[:600] + '...'
    return t


def shrink(case):
    if len(case['hashseeds']) > 2:
        for i in range(len(case['hashseeds'])):
            pr = case.get('primes') or [[] for _ in case['hashseeds']]
            yield dict(case, hashseeds=case['hashseeds'][:i] + case['hashseeds'][i + 1:], primes=pr[:i] + pr[i + 1:])
    if len(case['perms']) > 1:
        for i in range(1, len(case['perms'])):
            yield dict(case, perms=case['perms'][:i] + case['perms'][i + 1:])
    for k in list(case['opts']):
        if k != 'sort_keys':
            yield dict(case, opts={kk: vv for kk, vv in case['opts'].items() if kk != k})
    if case.get('junk'):
        yield dict(case, junk=0)
    if case.get('sibling') is not None:
        yield {k: v for k, v in case.items() if k != 'sibling'}
    if case.get('handdoc') and len(case['handdoc']['keys']) > 2:
        hk = case['handdoc']['keys']
        for i in range(len(hk)):
            yield dict(case, handdoc=dict(case['handdoc'], keys=hk[:i] + hk[i + 1:]))
    if any(case.get('primes') or []):
        pr = case['primes']
        yield dict(case, primes=[[] for _ in pr])
        for i, p in enumerate(pr):
            if p:
                yield dict(case, primes=pr[:i] + [p[1:]] + pr[i + 1:])
    for rc in shrink_recipe(case['recipe']):
        yield dict(case, recipe=rc)


def shrink_recipe(rc):
    """Smaller recipes that keep every mapping / set inside one comparable key family: members are
    dropped and containers promoted, keys and set members are never rewritten."""
    t = rc[0]
    if t in ('list', 'tuple'):
        for i in range(len(rc[1])):
            yield [t, rc[1][:i] + rc[1][i + 1:], rc[2]]
        for x in rc[1]:
            if x[0] in ('list', 'dict', 'set'):
                yield x
        for i, x in enumerate(rc[1]):
            for sx in shrink_recipe(x):
                yield [t, rc[1][:i] + [sx] + rc[1][i + 1:], rc[2]]
    elif t == 'set':
        for i in range(len(rc[1])):
            yield [t, rc[1][:i] + rc[1][i + 1:], rc[2]]
    elif t == 'dict':
        for i in range(len(rc[1])):
            yield [t, rc[1][:i] + rc[1][i + 1:], rc[2]]
        for k, x in rc[1]:
            if x[0] in ('list', 'dict', 'set'):
                yield x
        for i, (k, x) in enumerate(rc[1]):
            for sx in shrink_recipe(x):
                yield [t, rc[1][:i] + [[k, sx]] + rc[1][i + 1:], rc[2]]
    elif t == 'shared':
        yield rc[2]
    elif t == 'str' and len(rc[1]) > 1:
        yield ['str', 'a']
    elif t not in ('none', 'str'):
        yield ['none']
