"""C10 - customising one loader or dumper class never changes another.

Simulated: the process-global class registries as a state machine.  A case is a history of
registrations, subclass definitions, YAMLObject definitions and module-level helper calls
(some of which fail half-way); it is executed in a child forked from a pristine process, step
by step, next to an executable model of the rule ("own table or the nearest ancestor's;
the first registration of a kind copies the effective table").  After every step, for every
class of the lattice (all shipped loader/dumper classes and the subclasses the history made):
 tables    - the six effective registries equal the model's;
 roots     - the tables of the library's mixin classes (never a target) are unchanged;
 behaviour - load / compose / dump probes behave exactly like a reference class that is built
             from the model's tables (so dispatch itself is the library's own), and the callback
             that answers a probe is the one the restated dispatch rule predicts;
 safe      - shipped safe/base classes that were never a target still refuse hostile tags.
"""
import re

from sim import kernel, observe
from sim import shrink as shr

PROPERTY = 'C10'
LEVEL = 'exploration'
CASE_TIMEOUT = 120
RULE = ('one evaluation = one step of a registration history (executed in a forked pristine process) followed by the '
        'comparison of every class of the lattice with the model; histories are seeded (5-40 steps, swarm-chosen kinds, '
        'lattice shape and fault rate) plus, for the lowest run indices, the complete enumeration of all histories of '
        'length <= 2 (quick) / <= 3 (thorough) over a fixed alphabet; non-trivial = the step changed the model state; '
        'distinct = distinct model states (ownership pattern + table contents) reached')
DISTINCT_MEASURE = 'distinct model states (digest of every own table of every class) reached after a step'
ASSUMPTIONS = [
    'single inheritance below the shipped classes (with diamonds the statement and the MRO disagree)',
    'the model restates the transition rule of the six add_* methods, of the module-level helpers and of the YAMLObject metaclass; its initial state is read from the real classes in the pristine child',
    'the library mixin classes (SafeConstructor, Resolver, ...) are never a target: they are the read-only roots',
    'behaviour is compared with a reference subclass whose six tables are assigned from the model (dispatch code is the library\'s own); the exact/multi/None dispatch order is additionally restated for constructor and representer probes',
    'multi-constructor prefixes of the universe do not overlap, so table order is not part of the compared behaviour',
    'fault kinds: registrations that fail half-way only (failing `first` iterable, invalid path element / kind, unhashable key, yaml_loader entry without add_constructor); there is no clock or channel in this property',
]
STUBS = ['user callbacks (constructors / representers)', 'user data classes TA, TB(TA), TC and YAMLObject subclasses']

LOADERS = ['BaseLoader', 'SafeLoader', 'FullLoader', 'Loader', 'UnsafeLoader',
           'CBaseLoader', 'CSafeLoader', 'CFullLoader', 'CUnsafeLoader', 'CLoader']
DUMPERS = ['BaseDumper', 'SafeDumper', 'Dumper', 'CBaseDumper', 'CSafeDumper', 'CDumper']
BASE_ONLY = {'BaseLoader', 'CBaseLoader', 'BaseDumper', 'CBaseDumper'}
SAFE_LOADERS = ['SafeLoader', 'CSafeLoader']
ATTR = {'con': 'yaml_constructors', 'mcon': 'yaml_multi_constructors', 'rep': 'yaml_representers',
        'mrep': 'yaml_multi_representers', 'ires': 'yaml_implicit_resolvers', 'pres': 'yaml_path_resolvers'}
SIDE_KINDS = {'L': ['con', 'mcon', 'ires', 'pres'], 'D': ['rep', 'mrep', 'ires', 'pres']}

CON_TAGS = ['!a', '!b', 'tag:yaml.org,2002:int', None, '!y1', 'tag:yaml.org,2002:str']
MCON_PREFIXES = ['!p/', '!q/', None, 'tag:example.com,2000:']
# histories in 'many prefixes' mode draw from these too (tables that grow past any small-table fast path); no prefix is a
# prefix of another
EXTRA_PREFIXES = ['!r%02d/' % i for i in range(12)]
TYPES = ['TA', 'TB', 'TC', 'int', 'None', 'str', 'TUP']
REGEXES = [r'^x\d+$', r'^y.*$', r'^\d+$', r'^(?:x1|zz)$']
FIRSTS = [['x'], ['x', 'y'], None, ['1', '2'], ['z', 'x'], 'xy', ['y', None], [''], ['z'], ['x1'], ['xy', 'z'], ['y', 'y2']]
IRES_TAGS = ['!ix', '!iy', 'tag:yaml.org,2002:int']
PATHS = [[], ['k1'], ['k1', 'k2'], ['k3', 0], ['k3']]
PKINDS = [None, 'str', 'list', 'dict']
PTAGS = ['!P1', '!P2']
HOSTILE = ['!!python/object/apply:os.getcwd []', '!!python/name:os.getcwd', '!!python/tuple [1]', '!!python/module:os',
           '!!python/object/new:os.getcwd []']


class SimFault(Exception):
    pass


def plan(tier):
    if tier == 'quick':
        return {'runs': sum(enum_sizes('quick')) + 1500, 'wall': 300, 'batch': 8, 'shrink_s': 60, 'selfcheck': 6}
    return {'runs': 600000, 'wall': 2.5 * 3600, 'batch': 16, 'shrink_s': 120, 'selfcheck': 16}


# ---------------------------------------------------------------------------
# generation

def _alphabet():
    """Fixed alphabet of concrete operations for the enumerated short histories."""
    ops = []
    for t in ('Loader', 'SafeLoader', 'CSafeLoader', 'L1', 'L2', 'M1'):
        ops.append({'op': 'add', 'kind': 'con', 'target': t, 'key': '!a'})
        ops.append({'op': 'add', 'kind': 'mcon', 'target': t, 'key': '!p/'})
        ops.append({'op': 'add', 'kind': 'ires', 'target': t, 'tag': '!ix', 're': 0, 'first': ['x']})
        ops.append({'op': 'add', 'kind': 'pres', 'target': t, 'tag': '!P1', 'path': ['k1'], 'pkind': 'dict'})
    for t in ('Dumper', 'SafeDumper', 'CSafeDumper', 'D1', 'E1'):
        ops.append({'op': 'add', 'kind': 'rep', 'target': t, 'key': 'TA'})
        ops.append({'op': 'add', 'kind': 'mrep', 'target': t, 'key': 'TA'})
        ops.append({'op': 'add', 'kind': 'ires', 'target': t, 'tag': '!ix', 're': 0, 'first': ['x', 'y']})
        ops.append({'op': 'add', 'kind': 'pres', 'target': t, 'tag': '!P1', 'path': [], 'pkind': 'str'})
    ops += [
        {'op': 'mod', 'kind': 'con', 'key': '!a', 'Loader': None},
        {'op': 'mod', 'kind': 'mcon', 'key': '!q/', 'Loader': None},
        {'op': 'mod', 'kind': 'rep', 'key': 'TB', 'Dumper': None},
        {'op': 'mod', 'kind': 'mrep', 'key': 'TA', 'Dumper': None},
        {'op': 'mod', 'kind': 'ires', 'tag': '!iy', 're': 1, 'first': ['y'], 'Loader': None, 'Dumper': None},
        {'op': 'mod', 'kind': 'ires', 'tag': '!iy', 're': 1, 'first': None, 'Loader': 'L1', 'Dumper': 'D1'},
        {'op': 'mod', 'kind': 'pres', 'tag': '!P2', 'path': ['k3', 0], 'pkind': None, 'Loader': None, 'Dumper': None},
        {'op': 'yobj', 'name': 'Y1', 'tag': '!y1', 'loaders': 'default', 'dumper': 'default', 'base': None},
        {'op': 'yobj', 'name': 'Y2', 'tag': '!y2', 'loaders': ['L1', 'SafeLoader'], 'dumper': 'E1', 'base': None},
        {'op': 'yobj', 'name': 'Y3', 'tag': '!y2', 'loaders': 'inherit', 'dumper': 'inherit', 'base': 'Y2'},
        {'op': 'add', 'kind': 'ires', 'target': 'L1', 'tag': '!ix', 're': 0, 'first': {'chars': ['x', 'y'], 'fail_after': 1}},
        {'op': 'add', 'kind': 'pres', 'target': 'M1', 'tag': '!P1', 'path': ['k1'], 'pkind': 'dict', 'bad': 'elem'},
    ]
    return ops


ALPHABET = _alphabet()
# every enumerated history starts from this lattice (so that no enumerated step is vacuous)
PREFIX = [{'op': 'sub', 'name': 'L1', 'parent': 'Loader'}, {'op': 'sub', 'name': 'L2', 'parent': 'L1'},
          {'op': 'sub', 'name': 'M1', 'parent': 'SafeLoader'}, {'op': 'sub', 'name': 'D1', 'parent': 'Dumper'},
          {'op': 'sub', 'name': 'E1', 'parent': 'SafeDumper'}]


def enum_sizes(tier):
    n = len(ALPHABET)
    return [n, n * n] if tier == 'quick' else [n, n * n, n * n * n]


def enumerated(idx, tier):
    n = len(ALPHABET)
    for length, size in enumerate(enum_sizes(tier), 1):
        if idx < size:
            ops = []
            for _ in range(length):
                ops.append(dict(ALPHABET[idx % n]))
                idx //= n
            return [dict(o) for o in PREFIX] + ops[::-1]
        idx -= size
    return None


def gen_ires_args(r, fail_p):
    first = r.choice(FIRSTS)
    if r.random() < fail_p:
        chars = list(r.choice([['x', 'y'], ['1', 'x', 'z'], ['y'], [None, 'x']]))
        first = {'chars': chars, 'fail_after': r.randrange(len(chars) + 1)}
    return {'tag': r.choice(IRES_TAGS), 're': r.randrange(len(REGEXES)), 'first': first}


def gen_pres_args(r, fail_p):
    d = {'tag': r.choice(PTAGS), 'path': list(r.choice(PATHS)), 'pkind': r.choice(PKINDS)}
    if r.random() < fail_p:
        d['bad'] = r.choice(['elem', 'kind', 'index'])
    return d


def generate_indexed(idx, seed, tier):
    # the first run indices enumerate all short histories over the fixed alphabet
    ops = enumerated(idx, tier)
    if ops is not None:
        return {'ops': ops, 'mode': 'enumerated', 'sweep': 1.0, 'salt': 0, 'quiet_prefix': len(PREFIX) - 1}
    return generate(seed, tier)


def generate(seed, tier):
    r = kernel.rng(seed, 'history')
    ri = kernel.rng(seed, 'index')
    kinds = ['con', 'mcon', 'rep', 'mrep', 'ires', 'pres']
    if r.random() < 0.5:
        kinds = r.sample(kinds, r.randint(1, 4))
    many = r.random() < 0.08
    if many:
        kinds = ['mcon', 'mcon', 'mcon', 'con']
    fail_p = r.choice([0.0, 0.0, 0.1, 0.3])
    p_sub = r.choice([0.1, 0.2, 0.35])
    p_mod = r.choice([0.0, 0.15, 0.3])
    p_yobj = r.choice([0.0, 0.1, 0.2])
    focus = r.random() < 0.4      # most registrations target a small set of classes
    n = r.randint(5, 40) if tier == 'quick' else r.randint(5, 60)
    if many:
        n = max(n, r.randint(20, 40))
    lsubs, dsubs, yobjs = [], [], []
    ops = []
    hot = None
    for i in range(n):
        x = r.random()
        if x < p_sub or (i < 2 and r.random() < 0.6):
            side = r.choice('LLD')
            pool = (LOADERS + lsubs * 3) if side == 'L' else (DUMPERS + dsubs * 3)
            name = '%s%d' % ('L' if side == 'L' else 'D', len(lsubs if side == 'L' else dsubs) + 1)
            ops.append({'op': 'sub', 'name': name, 'parent': r.choice(pool)})
            (lsubs if side == 'L' else dsubs).append(name)
            continue
        if p_yobj and x < p_sub + p_yobj and r.random() < 0.25:
            # the list of loaders a YAMLObject class (or YAMLObject itself) sees is extended in place
            ops.append({'op': 'yext', 'target': r.choice([None, None] + yobjs), 'add': r.choice([c for c in LOADERS + lsubs * 2 if c not in BASE_ONLY])})
            continue
        if x < p_sub + p_yobj:
            name = 'Y%d' % (len(yobjs) + 1)
            lpool = [c for c in LOADERS + lsubs if c not in BASE_ONLY]
            base = r.choice(yobjs) if yobjs and r.random() < 0.3 else None
            lo = r.choice(['default', 'default', 'one', 'list', 'list_broken'] if base is None else
                          ['inherit', 'inherit', 'one', 'list'])
            if lo == 'one':
                lo = r.choice(lpool)
            elif lo == 'list':
                lo = r.sample(lpool, r.randint(1, 3))
            elif lo == 'list_broken':
                lo = r.sample(lpool, r.randint(1, 2)) + ['BROKEN'] + r.sample(lpool, 1)
            du = r.choice(['default', 'default', 'one'] if base is None else ['inherit', 'one'])
            if du == 'one':
                du = r.choice([c for c in DUMPERS + dsubs if c not in BASE_ONLY])
            tag = r.choice(['!y1', '!y2', None]) if base is not None else r.choice(['!y1', '!y2'])
            ops.append({'op': 'yobj', 'name': name, 'tag': tag, 'loaders': lo, 'dumper': du, 'base': base})
            yobjs.append(name)
            continue
        kind = r.choice(kinds)
        module = r.random() < p_mod
        op = {'op': 'mod' if module else 'add', 'kind': kind}
        if kind in ('con', 'mcon'):
            op['key'] = r.choice(CON_TAGS if kind == 'con' else (MCON_PREFIXES + EXTRA_PREFIXES * 3 if many else MCON_PREFIXES))
        elif kind in ('rep', 'mrep'):
            op['key'] = r.choice(TYPES + yobjs)
        elif kind == 'ires':
            op.update(gen_ires_args(r, fail_p))
        else:
            op.update(gen_pres_args(r, fail_p))
        if kind in ('con', 'mcon', 'rep', 'mrep') and r.random() < fail_p * 0.5:
            op['bad'] = 'unhashable'
        elif kind in ('con', 'mcon', 'rep', 'mrep') and r.random() < 0.06:
            op['value_none'] = True        # None registered as the callable (a table entry like any other)
        lpool = LOADERS + lsubs * 3
        dpool = DUMPERS + dsubs * 3
        if module:
            if kind in ('con', 'mcon', 'ires', 'pres'):
                op['Loader'] = None if r.random() < 0.6 else r.choice(lpool)
            if kind in ('rep', 'mrep', 'ires', 'pres'):
                op['Dumper'] = None if r.random() < 0.6 else r.choice(dpool)
        else:
            if kind in ('con', 'mcon'):
                pool = lpool
            elif kind in ('rep', 'mrep'):
                pool = dpool
            else:
                pool = lpool + dpool
            if focus and hot and r.random() < 0.6:
                cand = [c for c in hot if c in pool]
                op['target'] = r.choice(cand) if cand else r.choice(pool)
            else:
                op['target'] = r.choice(pool)
            if focus and hot is None:
                hot = [op['target']]
            elif focus and len(hot) < 3 and r.random() < 0.3:
                hot.append(op['target'])
        ops.append(op)
    return {'ops': ops, 'mode': 'seeded', 'sweep': r.choice([0.15, 0.3, 1.0]), 'salt': ri.randrange(1 << 30)}


def describe(case):
    return {'mode': case.get('mode'), 'steps': len(case['ops']), 'ops': case['ops'][:12]}


# ---------------------------------------------------------------------------
# labels: JSON-able names of the objects that live in the registries

def make_world(yaml):
    w = {'yaml': yaml, 'cls': {}, 'side': {}, 'objects': {}, 'yobj': {}, 'types': {}}
    for n in LOADERS:
        if hasattr(yaml, n):
            w['cls'][n] = getattr(yaml, n)
            w['side'][n] = 'L'
    for n in DUMPERS:
        if hasattr(yaml, n):
            w['cls'][n] = getattr(yaml, n)
            w['side'][n] = 'D'

    class TA:
        def __repr__(self):
            return '%s()' % type(self).__name__

    class TB(TA):
        pass

    class TC:
        def __repr__(self):
            return 'TC()'
    w['types'] = {'TA': TA, 'TB': TB, 'TC': TC, 'int': int, 'str': str, 'None': None, 'TUP': (TA, TC)}    # TUP: a tuple as key (hashable, never matches)
    w['regex'] = [re.compile(p) for p in REGEXES]
    w['nodecls'] = {'str': yaml.ScalarNode, 'list': yaml.SequenceNode, 'dict': yaml.MappingNode, None: None}
    return w


def label_callable(w, f):
    if f is None:
        w['objects'].setdefault('V:None', None)
        return 'V:None'
    cb = getattr(f, '_cbid', None)
    if cb is not None:
        lab = 'H:' + cb
    else:
        owner = getattr(f, '__self__', None)
        if isinstance(owner, type) and getattr(getattr(f, '__func__', None), '__name__', '') in ('from_yaml', 'to_yaml'):
            lab = ('Y:' if f.__func__.__name__ == 'from_yaml' else 'Z:') + owner.__name__
        else:
            lab = 'S:%s.%s' % (getattr(f, '__module__', '?'), getattr(f, '__qualname__', type(f).__name__))
    prev = w['objects'].get(lab)
    if prev is None and lab not in w['objects']:
        w['objects'][lab] = f
    elif prev is not f and prev != f:
        raise RuntimeError('label collision: %s' % lab)
    return lab


def label_type(w, t):
    if t is None:
        return 'None'
    for n, obj in w['types'].items():
        if obj is t:
            lab = 'T:' + n
            break
    else:
        if isinstance(t, type):
            lab = 'S:%s.%s' % (t.__module__, t.__qualname__)
        else:
            lab = 'X:' + repr(t)[:60]
    w['objects'].setdefault(lab, t)
    return lab


def label_regex(w, rx):
    lab = 'R:%d:%s' % (rx.flags, rx.pattern)
    w['objects'].setdefault(lab, rx)
    return lab


def label_node(w, c):
    if c is None:
        return None
    if isinstance(c, str):
        return 'str:' + c
    lab = 'N:' + c.__name__
    w['objects'].setdefault(lab, c)
    return lab


def pres_key(path, kind):
    return observe.jdump([path, kind])


def canon_table(w, kind, table):
    """Real registry -> JSON-able table in the model's vocabulary."""
    if kind in ('con', 'mcon'):
        return {('None' if k is None else 's:' + k): label_callable(w, v) for k, v in table.items()}
    if kind in ('rep', 'mrep'):
        return {label_type(w, k): label_callable(w, v) for k, v in table.items()}
    if kind == 'ires':
        return {repr(ch): [[tag, label_regex(w, rx)] for tag, rx in lst] for ch, lst in table.items()}
    out = {}
    for (path, pk), tag in table.items():
        out[pres_key([[label_node(w, nc), ic] for nc, ic in path], label_node(w, pk))] = tag
    return out


def decanon_table(w, kind, mt):
    """Model table -> a real registry object (for the reference class)."""
    ob = w['objects']
    if kind in ('con', 'mcon'):
        return {(None if k == 'None' else k[2:]): ob[v] for k, v in mt.items()}
    if kind in ('rep', 'mrep'):
        return {(None if k == 'None' else ob[k]): ob[v] for k, v in mt.items()}
    if kind == 'ires':
        return {eval(ch, {'__builtins__': {}}, {}): [(tag, ob[rx]) for tag, rx in lst] for ch, lst in mt.items()}
    import json
    out = {}
    for key, tag in mt.items():
        path, pk = json.loads(key)
        out[(tuple((nc if nc is None else (nc[4:] if nc.startswith('str:') else ob[nc]), ic) for nc, ic in path),
             None if pk is None else ob[pk])] = tag
    return out


def copy_table(kind, t):
    if kind == 'ires':
        return {k: [list(e) for e in v] for k, v in t.items()}
    return dict(t)


# ---------------------------------------------------------------------------
# the model

class Model:
    def __init__(self, w):
        self.roots = {}          # (kind, owner label) -> table
        self.classes = {}        # name -> {'parent', 'side', 'own': {kind: table|None}, 'root': {kind: owner label}}
        self.yobj = {}           # name -> {'loaders': [...], 'dumper': name}
        # YAMLObject.yaml_loader is ONE list object that every YAMLObject subclass without a yaml_loader of its own sees
        self.yobj_default = ['Loader', 'FullLoader', 'UnsafeLoader']
        self.targeted = set()
        for name, cls in w['cls'].items():
            side = w['side'][name]
            ent = {'parent': None, 'side': side, 'own': {}, 'root': {}}
            for kind in SIDE_KINDS[side]:
                attr = ATTR[kind]
                owner = next(k for k in cls.__mro__ if attr in k.__dict__)
                if owner is cls:
                    raise RuntimeError('%s owns %s in the pristine process' % (name, attr))
                olab = owner.__module__ + '.' + owner.__qualname__
                self.roots.setdefault((kind, olab), canon_table(w, kind, owner.__dict__[attr]))
                w.setdefault('rootcls', {})[(kind, olab)] = owner
                ent['own'][kind] = None
                ent['root'][kind] = olab
            self.classes[name] = ent

    def eff(self, name, kind):
        c = self.classes[name]
        while True:
            if c['own'][kind] is not None:
                return c['own'][kind]
            if c['parent'] is None:
                return self.roots[(kind, c['root'][kind])]
            c = self.classes[c['parent']]

    def own(self, name, kind):
        c = self.classes[name]
        if c['own'][kind] is None:
            c['own'][kind] = copy_table(kind, self.eff(name, kind))
        self.targeted.add(name)
        return c['own'][kind]

    def heirs(self, name):
        out = [name]
        for n, c in self.classes.items():
            p = c['parent']
            while p is not None:
                if p == name:
                    out.append(n)
                    break
                p = self.classes[p]['parent']
        return out

    def digest(self):
        return observe.digest([[n, c['parent'], c['own']] for n, c in sorted(self.classes.items())])

    # --- transitions: each returns the predicted outcome ('ok' or an exception class name)
    def sub(self, name, parent):
        p = self.classes[parent]
        self.classes[name] = {'parent': parent, 'side': p['side'], 'own': {k: None for k in p['own']}, 'root': dict(p['root'])}
        return 'ok'

    def add(self, target, kind, op, cblabel):
        if kind in ('con', 'mcon', 'rep', 'mrep'):
            t = self.own(target, kind)
            if op.get('bad') == 'unhashable':
                return 'TypeError'
            t[key_label(kind, op['key'])] = cblabel
            return 'ok'
        if kind == 'ires':
            t = self.own(target, kind)
            first = op['first']
            fail_after = None
            if isinstance(first, dict):
                fail_after, first = first['fail_after'], first['chars']
            if first is None:
                first = [None]
            rx = 'R:%d:%s' % (re.compile(REGEXES[op['re']]).flags, REGEXES[op['re']])
            for j, ch in enumerate(first):
                if fail_after is not None and j == fail_after:
                    return 'SimFault'
                t.setdefault(repr(ch), []).append([op['tag'], rx])
            if fail_after is not None and fail_after >= len(first):
                return 'SimFault'
            return 'ok'
        t = self.own(target, kind)
        if op.get('bad'):
            return 'ResolverError'
        path = [[None, e] for e in op['path']]
        pk = {None: None, 'str': 'N:ScalarNode', 'list': 'N:SequenceNode', 'dict': 'N:MappingNode'}[op['pkind']]
        t[pres_key(path, pk)] = op['tag']
        return 'ok'


def key_label(kind, key):
    if kind in ('con', 'mcon'):
        return 'None' if key is None else 's:' + key
    if key == 'None':
        return 'None'
    return 'T:' + key


def fan_out(op):
    """Targets of a module-level helper, in the library's order (loaders first, then the dumper)."""
    kind = op['kind']
    out = []
    if kind in ('con', 'mcon', 'ires', 'pres'):
        lo = op.get('Loader')
        out += ['Loader', 'FullLoader', 'UnsafeLoader'] if lo is None else [lo]
    if kind in ('rep', 'mrep', 'ires', 'pres'):
        du = op.get('Dumper')
        out.append('Dumper' if du is None else du)
    return out


# ---------------------------------------------------------------------------
# the real thing

class FailingFirst:
    def __init__(self, chars, fail_after):
        self.chars, self.fail_after = chars, fail_after

    def __iter__(self):
        for j, ch in enumerate(self.chars):
            if j == self.fail_after:
                raise SimFault('first[%d]' % j)
            yield ch
        if self.fail_after >= len(self.chars):
            raise SimFault('first[end]')


class Broken:
    """A yaml_loader entry without add_constructor."""


def make_cb(w, kind, idx, structural=False):
    """Harness callbacks return hashable markers.  A catch-all (None key) constructor is structural: it builds
    mappings and sequences from their children, so that what happens to KEYS and items stays observable."""
    lab = '%s:%d' % (kind, idx)
    yaml = w['yaml']

    def build(loader, node, marker):
        # (through the library's own helpers, as a user's catch-all would)
        if structural and isinstance(node, yaml.MappingNode):
            return loader.construct_mapping(node, deep=True)
        if structural and isinstance(node, yaml.SequenceNode):
            return loader.construct_sequence(node, deep=True)
        return marker
    if kind == 'con':
        def cb(loader, node):
            return build(loader, node, ('cb', idx))
    elif kind == 'mcon':
        def cb(loader, suffix, node):
            return build(loader, node, ('mcb', idx, suffix))
    elif kind == 'rep':
        def cb(dumper, data):
            return dumper.represent_scalar('!r', 'rep-%d' % idx)
    else:
        def cb(dumper, data):
            return dumper.represent_scalar('!r', 'mrep-%d' % idx)
    cb._cbid = lab
    w['objects']['H:' + lab] = cb
    return cb


def real_args(w, op, idx):
    """Positional arguments of the add_* call for this op (after the class / before Loader=)."""
    kind = op['kind']
    if kind in ('con', 'mcon'):
        key = [] if op.get('bad') == 'unhashable' else op['key']
        return [key, None if op.get('value_none') else make_cb(w, kind, idx, structural=op['key'] is None)]
    if kind in ('rep', 'mrep'):
        key = [] if op.get('bad') == 'unhashable' else w['types'][op['key']]
        return [key, None if op.get('value_none') else make_cb(w, kind, idx)]
    if kind == 'ires':
        first = op['first']
        if isinstance(first, dict):
            first = FailingFirst(first['chars'], first['fail_after'])
        return [op['tag'], w['regex'][op['re']], first]
    path = list(op['path'])
    pk = {None: None, 'str': str, 'list': list, 'dict': dict}[op['pkind']]
    if op.get('bad') == 'elem':
        path = path + [('a', 'b', 'c')]
    elif op.get('bad') == 'index':
        path = path + [1.5]
    elif op.get('bad') == 'kind':
        pk = int
    return [op['tag'], path, pk]


METHOD = {'con': 'add_constructor', 'mcon': 'add_multi_constructor', 'rep': 'add_representer',
          'mrep': 'add_multi_representer', 'ires': 'add_implicit_resolver', 'pres': 'add_path_resolver'}


def valid(model, op):
    cl = model.classes
    if op['op'] == 'sub':
        return op['parent'] in cl and op['name'] not in cl
    if op['op'] == 'add':
        t = op['target']
        return t in cl and op['kind'] in SIDE_KINDS[cl[t]['side']] and key_ok(model, op)
    if op['op'] == 'mod':
        for t in fan_out(op):
            if t not in cl or op['kind'] not in SIDE_KINDS[cl[t]['side']]:
                return False
        lo, du = op.get('Loader'), op.get('Dumper')
        if lo is not None and cl[lo]['side'] != 'L':
            return False
        if du is not None and cl[du]['side'] != 'D':
            return False
        return key_ok(model, op)
    if op['op'] == 'yext':
        t = op['target']
        if t is not None and (t not in model.yobj or not model.yobj[t].get('aslist') or 'BROKEN' in model.yobj[t]['loaders']):
            return False
        return op['add'] in cl and cl[op['add']]['side'] == 'L' and not base_only(model, op['add'])
    if op['op'] == 'yobj':
        if op['name'] in model.yobj or (op['base'] is not None and op['base'] not in model.yobj):
            return False
        if op['base'] is None and (op['loaders'] == 'inherit' or op['dumper'] == 'inherit'):
            return False
        lo = op['loaders']
        names = [] if lo in ('default', 'inherit') else ([lo] if isinstance(lo, str) else lo)
        for n in names:
            if n != 'BROKEN' and (n not in cl or cl[n]['side'] != 'L' or base_only(model, n)):
                return False
        du = op['dumper']
        if du not in ('default', 'inherit') and (du not in cl or cl[du]['side'] != 'D' or base_only(model, du)):
            return False              # Base* classes have no construct_yaml_object / represent_yaml_object
        return True
    return False


def key_ok(model, op):
    if op['kind'] in ('rep', 'mrep') and op['key'] not in TYPES and op['key'] not in model.yobj:
        return False
    return True


def base_only(model, name):
    c = model.classes[name]
    while c['parent'] is not None:
        name = c['parent']
        c = model.classes[name]
    return name in BASE_ONLY


def outcome_of(fn):
    try:
        fn()
        return 'ok'
    except kernel.Hang:
        raise
    except Exception as exc:
        return type(exc).__name__


def step(w, model, op, idx):
    """Apply one op to the model and to the real classes.  Returns (predicted, observed, touched)."""
    yaml = w['yaml']
    kind = op.get('kind')
    if op['op'] == 'sub':
        pred = model.sub(op['name'], op['parent'])
        w['cls'][op['name']] = type(op['name'], (w['cls'][op['parent']],), {})
        w['side'][op['name']] = w['side'][op['parent']]
        return pred, 'ok', [op['name']]
    if op['op'] == 'yext':
        # `SomeYAMLObjectClass.yaml_loader += [cls]`: the list object the class sees (its own or an inherited one,
        # YAMLObject's included) is extended in place.  Nothing is registered by this; later YAMLObject subclasses
        # that see this list register on the new entry too - the module-level helpers must not.
        lst = model.yobj_default if op['target'] is None else model.yobj[op['target']]['loaders']
        lst.append(op['add'])
        ycls = yaml.YAMLObject if op['target'] is None else w['yobj'][op['target']]

        def extend():
            ycls.yaml_loader += [w['cls'][op['add']]]
        return 'ok', outcome_of(extend), []
    if op['op'] == 'add':
        args = real_args(w, op, idx)
        pred = model.add(op['target'], kind, op, 'V:None' if op.get('value_none') else 'H:%s:%d' % (kind, idx))
        obs = outcome_of(lambda: getattr(w['cls'][op['target']], METHOD[kind])(*args))
        return pred, obs, model.heirs(op['target'])
    if op['op'] == 'mod':
        args = real_args(w, op, idx)
        pred = 'ok'
        touched = []
        for t in fan_out(op):
            touched += model.heirs(t)
            pred = model.add(t, kind, op, 'V:None' if op.get('value_none') else 'H:%s:%d' % (kind, idx))
            if pred != 'ok':
                break
        kw = {}
        if 'Loader' in op and op['Loader'] is not None:
            kw['Loader'] = w['cls'][op['Loader']]
        if 'Dumper' in op and op['Dumper'] is not None:
            kw['Dumper'] = w['cls'][op['Dumper']]
        obs = outcome_of(lambda: getattr(yaml, METHOD[kind])(*args, **kw))
        return pred, obs, touched
    # YAMLObject subclass
    name, base = op['name'], op['base']
    ns = {'__repr__': lambda self: '%s(%r)' % (type(self).__name__, sorted(vars(self).items()))}
    if op['tag'] is not None:
        ns['yaml_tag'] = op['tag']
    minfo = dict(model.yobj[base]) if base is not None else {'loaders': model.yobj_default, 'dumper': 'Dumper', 'aslist': True}
    lo = op['loaders']
    if lo not in ('default', 'inherit'):
        if isinstance(lo, str):
            ns['yaml_loader'] = w['cls'][lo]
            minfo.update(loaders=[lo], aslist=False)
        else:
            ns['yaml_loader'] = [Broken() if n == 'BROKEN' else w['cls'][n] for n in lo]
            minfo.update(loaders=list(lo), aslist=True)
    du = op['dumper']
    if du not in ('default', 'inherit'):
        ns['yaml_dumper'] = w['cls'][du]
        minfo['dumper'] = du
    pred = 'ok'
    touched = []
    model.yobj[name] = minfo
    w['types'][name] = None            # placeholder until the class exists
    if op['tag'] is not None:
        for n in minfo['loaders']:
            if n == 'BROKEN':
                pred = 'AttributeError'
                break
            model.own(n, 'con')['s:' + op['tag']] = 'Y:' + name
            touched += model.heirs(n)
        if pred == 'ok':
            model.own(minfo['dumper'], 'rep')['T:' + name] = 'Z:' + name
            touched += model.heirs(minfo['dumper'])
    basecls = w['yobj'][base] if base is not None else yaml.YAMLObject
    made = {}

    def create():
        made['cls'] = type(basecls)(name, (basecls,), ns)
    obs = outcome_of(create)
    if 'cls' in made:
        w['yobj'][name] = made['cls']
        w['types'][name] = made['cls']
        w['objects']['T:' + name] = made['cls']
        w['objects']['Y:' + name] = made['cls'].from_yaml
        w['objects']['Z:' + name] = made['cls'].to_yaml
    else:
        # the metaclass raised half-way: the class object survives only inside the registries
        # it reached; find it there so that labels and the reference class can name it
        del w['types'][name]
        for n in w['cls']:
            if w['side'][n] == 'L':
                f = getattr(w['cls'][n], 'yaml_constructors').get(op['tag'])
                owner = getattr(f, '__self__', None)
                if isinstance(owner, type) and owner.__name__ == name:
                    w['types'][name] = owner
                    w['yobj'][name] = owner
                    w['objects']['T:' + name] = owner
                    w['objects']['Y:' + name] = f
                    break
        if name not in w['types']:
            w['types'][name] = type(name, (), {})     # never registered anywhere
            w['yobj'][name] = w['types'][name]
    return pred, obs, touched


# ---------------------------------------------------------------------------
# probes

LOAD_PROBES = [('load', '!a x'), ('load', '!b [1, 2]'), ('load', '!p/s1 x'), ('load', '!q/s2 {k: v}'),
               ('load', '!u x'), ('load', '5'), ('load', 'plain'), ('load', '!y1 {v: 1}'), ('load', '!y2 {v: 2}'),
               ('load', '!<tag:example.com,2000:z> [x1]'), ('load', 'plain: value'), ('load', '[plain, {other: value}]'),
               ('tag', 'x1'), ('tag', 'y2'), ('tag', '12'), ('tag', 'zz'), ('tag', 'plain'), ('tag', '2'),
               ('tags', 'k1: {k2: v}\nk3: [w]\n'), ('tags', '[x1]')]
DUMP_PROBES = [('dump', 'TA'), ('dump', 'TB'), ('dump', 'TC'), ('dump', 'int'), ('dump', 'Y1'), ('dump', 'Y2'), ('dump', 'Y3'),
               ('dumps', 'x1'), ('dumps', 'y2'), ('dumps', '12'), ('dumps', 'zz'), ('dumps', 'zebra'),
               ('dumpv', None)]
DUMPV = {'k1': {'k2': 'v'}, 'k3': ['w']}


def result_form(w, v):
    if isinstance(v, tuple) and v and v[0] in ('cb', 'mcb'):
        return list(v)
    for n, cls in w['yobj'].items():
        if type(v) is cls:
            return ['yobj', n, sorted((k, repr(x)) for k, x in vars(v).items())]
    return ['value', observe.value(v)]


def node_tags(node, yaml):
    out = [node.tag]
    if isinstance(node, yaml.SequenceNode):
        for c in node.value:
            out += node_tags(c, yaml)
    elif isinstance(node, yaml.MappingNode):
        for k, v in node.value:
            out += node_tags(k, yaml) + node_tags(v, yaml)
    return out


def run_probe(w, cls, probe):
    yaml = w['yaml']
    kind, arg = probe
    try:
        if kind == 'load':
            return result_form(w, yaml.load(arg, Loader=cls))
        if kind == 'tag':
            return ['tag', yaml.compose(arg, Loader=cls).tag]
        if kind == 'tags':
            return ['tags', node_tags(yaml.compose(arg, Loader=cls), yaml)]
        if kind == 'dump':
            t = w['types'].get(arg)
            if t is None:
                return ['n/a']
            if arg == 'int':
                data = 5
            elif arg in w['yobj']:
                data = t.__new__(t)
                try:
                    data.v = 1
                except AttributeError:
                    pass
            else:
                data = t()
            return ['text', yaml.dump(data, Dumper=cls)]
        if kind == 'dumps':
            return ['text', yaml.dump(arg, Dumper=cls)]
        return ['text', yaml.dump(DUMPV, Dumper=cls)]
    except kernel.Hang:
        raise
    except Exception as exc:
        prob = getattr(exc, 'problem', None)
        return ['exc', type(exc).__name__, prob if isinstance(prob, str) else repr(exc.args)[:120]]


def dispatch_con(con, mcon, tag):
    """The exact / prefix / None order of construct_object restated over model tables."""
    k = 's:' + tag
    if k in con:
        return con[k], None
    for pk, lab in mcon.items():
        if pk != 'None' and tag.startswith(pk[2:]):
            return lab, tag[len(pk[2:]):]
    if 'None' in mcon:
        return mcon['None'], tag
    if 'None' in con:
        return con['None'], None
    return None, None


def dispatch_rep(w, rep, mrep, typ):
    lab = label_type(w, typ)
    if lab in rep:
        return rep[lab]
    for t in typ.__mro__:
        tl = label_type(w, t)
        if tl in mrep:
            return mrep[tl]
    if 'None' in mrep:
        return mrep['None']
    if 'None' in rep:
        return rep['None']
    return None


PROBE_TAGS = {'!a x': '!a', '!b [1, 2]': '!b', '!p/s1 x': '!p/s1', '!q/s2 {k: v}': '!q/s2', '!u x': '!u',
              '!y1 {v: 1}': '!y1', '!y2 {v: 2}': '!y2', '!<tag:example.com,2000:z> [x1]': 'tag:example.com,2000:z'}


STR_TAG, MAP_TAG, SEQ_TAG = 'tag:yaml.org,2002:str', 'tag:yaml.org,2002:map', 'tag:yaml.org,2002:seq'
NESTED_PROBES = {'plain: value': {'plain': 'value'}, '[plain, {other: value}]': ['plain', {'other': 'value'}]}
NOPRED = object()


def predict_nested(model, name, shape):
    """Value of a probe made of plain str scalars in block / flow collections, by the restated rule applied to
    EVERY node (keys included).  NOPRED when the rule's answer depends on something not modelled here."""
    if model.eff(name, 'pres'):
        return NOPRED                     # path resolvers may retag any of the nodes
    for lst in model.eff(name, 'ires').values():
        for tag, rx in lst:
            if rx.startswith('R:') and any(re.match(rx.split(':', 2)[2], s) for s in ('plain', 'value', 'other')):
                return NOPRED
    con, mcon = model.eff(name, 'con'), model.eff(name, 'mcon')

    def harness(lab):
        return lab is not None and lab.startswith('H:')

    def node(shape):
        tag = STR_TAG if isinstance(shape, str) else MAP_TAG if isinstance(shape, dict) else SEQ_TAG
        lab, suffix = dispatch_con(con, mcon, tag)
        catch_all = harness(lab) and (con.get('None') == lab or mcon.get('None') == lab) and ('s:' + tag) not in con
        if isinstance(shape, str):
            if harness(lab):
                n = int(lab.rsplit(':', 1)[1])
                return ('cb', n) if lab.startswith('H:con:') else ('mcb', n, suffix)
            if lab is None or lab.endswith('construct_yaml_str'):
                return shape
            return NOPRED
        if harness(lab) and not catch_all:
            n = int(lab.rsplit(':', 1)[1])
            return ('cb', n) if lab.startswith('H:con:') else ('mcb', n, suffix)
        if not (catch_all or lab is None or lab.endswith(('construct_yaml_map', 'construct_yaml_seq'))):
            return NOPRED
        if isinstance(shape, dict):
            out = {}
            for k, v in shape.items():
                kk, vv = node(k), node(v)
                if kk is NOPRED or vv is NOPRED:
                    return NOPRED
                out[kk] = vv
            return out
        items = [node(x) for x in shape]
        return NOPRED if any(x is NOPRED for x in items) else items
    return node(shape)


def predict_tag(model, name, value):
    """resolve() restated: the resolvers filed under the scalar's first character, then the wildcard ones; the
    first regular expression that matches wins.  NOPRED when path resolvers could decide."""
    if model.eff(name, 'pres'):
        return NOPRED
    ires = model.eff(name, 'ires')
    cands = list(ires.get(repr(value[0] if value else ''), [])) + list(ires.get('None', []))
    for tag, rx in cands:
        _, flags, pattern = rx.split(':', 2)
        if re.compile(pattern, int(flags)).match(value):
            return tag
    return STR_TAG


def predicted_marker(w, model, name, probe):
    """What the restated dispatch rule says about a probe, when it says something checkable."""
    kind, arg = probe
    side = model.classes[name]['side']
    if side == 'L' and kind == 'tag':
        pred = predict_tag(model, name, arg)
        return None if pred is NOPRED else ['tag', pred]
    if side == 'L' and kind == 'load' and arg in NESTED_PROBES:
        pred = predict_nested(model, name, NESTED_PROBES[arg])
        return None if pred is NOPRED else ['nested', pred]
    if side == 'L' and kind == 'load' and arg in PROBE_TAGS:
        con, mcon = model.eff(name, 'con'), model.eff(name, 'mcon')
        lab, suffix = dispatch_con(con, mcon, PROBE_TAGS[arg])
        if lab is None:
            return None
        if lab in (con.get('None'), mcon.get('None')) and ('s:' + PROBE_TAGS[arg]) not in con and not arg.endswith(' x'):
            return None       # a structural catch-all builds the collection from its children: no single marker
        if lab.startswith('H:con:'):
            return ['cb', int(lab[6:])]
        if lab.startswith('H:mcon:'):
            return ['mcb', int(lab[7:]), suffix]
        if lab.startswith('Y:'):
            return ['yobj', lab[2:]]
        return None
    if side == 'D' and kind == 'dumps':
        # a str is written plain exactly when the class's own implicit resolvers give its text the str tag (the rule
        # restated: a reference class shares whatever the serializer may share between classes)
        lab = dispatch_rep(w, model.eff(name, 'rep'), model.eff(name, 'mrep'), str)
        if lab is None or not lab.endswith('.represent_str'):
            return None       # a harness callback (or nothing) represents str for this class: no statement about quoting
        pred = predict_tag(model, name, arg)
        return None if pred is NOPRED else ['plain', pred == STR_TAG]
    if side == 'D' and kind == 'dump':
        t = w['types'].get(arg)
        if t is None:
            return None
        lab = dispatch_rep(w, model.eff(name, 'rep'), model.eff(name, 'mrep'), t)
        if lab is None:
            return None
        if lab.startswith('H:rep:'):
            return ['rep', 'rep-%s' % lab[6:]]
        if lab.startswith('H:mrep:'):
            return ['rep', 'mrep-%s' % lab[7:]]
        if lab.startswith('Z:'):
            return ['ztag', lab[2:]]
    return None


def marker_matches(w, model, pred, got):
    if pred[0] == 'tag':
        return got == pred
    if pred[0] == 'plain':
        if got[0] != 'text':
            return True       # the dump failed for a reason of its own: nothing to conclude
        quoted = got[1][:1] in ('"', "'") or got[1].startswith('!!') or got[1].startswith('!')
        return quoted != pred[1]
    if pred[0] == 'nested':
        if got[0] == 'exc':
            return True       # e.g. a marker made the key unhashable elsewhere: nothing to conclude
        return got == result_form(w, pred[1])
    if pred[0] in ('cb', 'mcb'):
        return got == pred
    if pred[0] in ('yobj', 'ztag') and got[0] == 'exc':
        return True      # the predicted callback ran into an error of its own (e.g. keys made unhashable by a !!str constructor)
    if pred[0] == 'yobj':
        return got[0] == 'yobj' and got[1] == pred[1]
    if pred[0] == 'rep':
        if got[0] != 'text':
            return False
        found = re.findall(r'm?rep-\d+', got[1])
        return found == [pred[1]]
    if pred[0] == 'ztag':
        tag = getattr(w['yobj'].get(pred[1]), 'yaml_tag', None)
        return got[0] == 'text' and (tag is None or got[1].startswith(tag))
    return True


def reference_class(w, model, name):
    cls = w['cls'][name]
    side = model.classes[name]['side']
    attrs = {}
    for kind in SIDE_KINDS[side]:
        attrs[ATTR[kind]] = decanon_table(w, kind, model.eff(name, kind))
    return type(cls.__name__, (cls,), attrs)      # same __name__: it appears in messages


# ---------------------------------------------------------------------------
# execution

def compare_all(w, model, initial, out, where, behaviour_for, memo):
    """tables / roots / behaviour for the classes of the lattice.  Returns a violation or None."""
    yaml = w['yaml']
    for name in sorted(model.classes):
        cls = w['cls'][name]
        side = model.classes[name]['side']
        for kind in SIDE_KINDS[side]:
            real = canon_table(w, kind, getattr(cls, ATTR[kind]))
            want = model.eff(name, kind)
            out['evals_tables'] += 1
            if real != want:
                vclass = 'table-differs'
                if name in initial and name not in model.targeted:
                    vclass = 'untargeted-shipped-class-changed'
                return {'class': vclass, 'detail': dict(where, cls=name, kind=kind, diff=table_diff(want, real))}
    for (kind, olab), want in model.roots.items():
        real = canon_table(w, kind, w['rootcls'][(kind, olab)].__dict__[ATTR[kind]])
        if real != want:
            return {'class': 'root-table-changed', 'detail': dict(where, root=olab, kind=kind, diff=table_diff(want, real))}
    # one more load probe for every extra prefix that some class has registered so far
    extra = [p for p in EXTRA_PREFIXES if any(c['side'] == 'L' and ('s:' + p) in model.eff(n, 'mcon') for n, c in model.classes.items())]
    extra_probes = [('load', '%ssfx x' % p) for p in extra]
    for name in behaviour_for:
        cls = w['cls'][name]
        side = model.classes[name]['side']
        probes = (LOAD_PROBES + extra_probes) if side == 'L' else DUMP_PROBES
        key = (name, observe.digest([model.eff(name, k) for k in SIDE_KINDS[side]]), len(w['yobj']), len(extra))
        ref = memo.get(key)
        if ref is None:
            try:
                rcls = reference_class(w, model, name)
            except KeyError as exc:
                out['extra']['reference_class_not_buildable'] = out['extra'].get('reference_class_not_buildable', 0) + 1
                continue
            ref = memo[key] = [run_probe(w, rcls, p) for p in probes]
        for p, want in zip(probes, ref):
            got = run_probe(w, cls, p)
            out['evals_probes'] += 1
            if got != want:
                return {'class': 'behaviour-differs-from-model', 'detail': dict(where, cls=name, probe=list(p), expected=want, got=got)}
            pm = predicted_marker(w, model, name, p)
            if pm is not None:
                out['probes']['dispatch_predictions_checked'] = out['probes'].get('dispatch_predictions_checked', 0) + 1
                if not marker_matches(w, model, pm, got):
                    if pm[0] == 'nested':
                        pm = ['nested', result_form(w, pm[1])]
                    return {'class': 'dispatch-differs-from-rule', 'detail': dict(where, cls=name, probe=list(p), predicted=pm, got=got)}
    return None


def table_diff(want, real):
    d = {}
    for k in sorted(set(want) | set(real), key=str):
        if want.get(k) != real.get(k):
            d[k] = {'model': want.get(k), 'real': real.get(k)}
        if len(d) >= 4:
            break
    return d


def hostile_check(w, model, where):
    yaml = w['yaml']
    for name in SAFE_LOADERS:
        if name not in w['cls'] or name in model.targeted:
            continue
        for doc in HOSTILE:
            try:
                v = yaml.load(doc, Loader=w['cls'][name])
            except yaml.constructor.ConstructorError:
                continue
            except Exception as exc:
                return {'class': 'safe-loader-no-longer-refuses', 'detail': dict(where, cls=name, doc=doc, got=type(exc).__name__)}
            return {'class': 'safe-loader-no-longer-refuses', 'detail': dict(where, cls=name, doc=doc, got=repr(v)[:80])}
    return None


def run_history(case):
    import random
    import yaml
    out = {'violations': [], 'evals': 0, 'probes': {}, 'faults': {}, 'sigs': [], 'extra': {}, 'evals_tables': 0, 'evals_probes': 0}
    w = make_world(yaml)
    model = Model(w)
    initial = set(model.classes)
    memo = {}
    rr = random.Random(kernel.H(case.get('salt', 0), 'sweep'))
    logparts = []
    where = {'step': -1, 'op': None}
    v = compare_all(w, model, initial, out, where, sorted(model.classes), memo)
    if v:
        v['class'] = 'pristine-' + v['class']
        out['violations'].append(v)
    nops = len(case['ops'])
    for idx, op in enumerate(case['ops']):
        if out['violations']:
            break
        if not valid(model, op):
            out['extra']['ops_skipped_invalid'] = out['extra'].get('ops_skipped_invalid', 0) + 1
            logparts.append([idx, 'skipped'])
            continue
        before = model.digest()
        pred, obs, touched = step(w, model, op, idx)
        after = model.digest()
        out['evals'] += 1
        where = {'step': idx, 'op': op}
        opname = op['op'] + ':' + op.get('kind', '')
        out['probes']['op:' + opname] = out['probes'].get('op:' + opname, 0) + 1
        if pred != 'ok':
            out['faults']['failed-registration:' + pred] = out['faults'].get('failed-registration:' + pred, 0) + 1
        if after != before:
            out['sigs'].append(after)
        logparts.append([idx, pred, obs, after])
        if (pred == 'ok') != (obs == 'ok'):      # which exception class is not C10's business
            out['violations'].append({'class': 'operation-outcome-differs', 'detail': dict(where, predicted=pred, observed=obs)})
            break
        last = idx == nops - 1
        if idx < case.get('quiet_prefix', 0):
            continue                 # fixed lattice prefix of an enumerated history: compared once, after its last step
        if last or rr.random() < case.get('sweep', 0.3):
            names = sorted(model.classes)
            out['probes']['full_behaviour_sweeps'] = out['probes'].get('full_behaviour_sweeps', 0) + 1
        else:
            others = sorted(set(model.classes) - set(touched))
            names = sorted(set(touched)) + rr.sample(others, min(3, len(others)))
        v = compare_all(w, model, initial, out, where, names, memo)
        if v is None and last:
            v = hostile_check(w, model, where)
        if v:
            out['violations'].append(v)
    if not case['ops']:
        v = hostile_check(w, model, where)
        if v:
            out['violations'].append(v)
    out['maxima'] = {'classes_in_lattice': len(model.classes), 'steps': len(case['ops'])}
    out['extra']['table_comparisons'] = out.pop('evals_tables')
    out['extra']['behaviour_probes'] = out.pop('evals_probes')
    out['extra']['mode_' + case.get('mode', 'seeded')] = 1
    out['log'] = observe.digest(logparts)
    out['sample'] = describe(case)
    return out


def execute(case):
    import yaml
    status, res = kernel.forked(lambda: run_history(case), timeout=CASE_TIMEOUT - 20)
    if status == 'ok':
        if not getattr(yaml, '__with_libyaml__', False):
            res['extra']['c_backend_not_run'] = 1
        return res
    if status == 'error':
        raise RuntimeError('history worker failed:\n%s' % res)
    return {'violations': [{'class': status, 'detail': 'forked history worker: %s %r' % (status, res)}],
            'evals': 1, 'log': status, 'sig': None}


def shrink(case):
    ops = case['ops']
    for cand in shr.list_candidates(ops, 0):
        yield dict(case, ops=cand, mode='shrunk', sweep=1.0)
    for i, op in enumerate(ops):
        if op.get('bad'):
            yield dict(case, ops=ops[:i] + [{k: v for k, v in op.items() if k != 'bad'}] + ops[i + 1:], mode='shrunk', sweep=1.0)
        if op['op'] == 'mod':
            for t in fan_out(op):
                simple = dict(op, op='add', target=t)
                simple.pop('Loader', None)
                simple.pop('Dumper', None)
                yield dict(case, ops=ops[:i] + [simple] + ops[i + 1:], mode='shrunk', sweep=1.0)
