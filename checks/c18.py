"""C18 - streams are consumed incrementally and documents delivered as they complete.

Simulated: the input channel (SimReader with a seeded read-size schedule) and the consumer of
the generator API (when it stops, closes, throws or drops the generator).  Three oracles:
 bound   - when document k is delivered, units handed out by the stream minus the end offset
           of the token that terminates document k is <= 2 refill blocks (4096 units for the
           pure-Python reader, 16384 for LibYAML), however much follows;
 order   - k good documents followed by a malformed one: exactly k documents are delivered,
           then the error (reader-level malformation: known finding K1);
 release - with the cyclic GC disabled, a weak reference to the caller's stream dies as soon
           as the generator is closed, thrown into or dropped, at every abandonment point.
"""
import gc
import weakref

from sim import kernel, observe
from sim import shrink as shr
from sim.streams import SimReader

PROPERTY = 'C18'
LEVEL = 'exploration'
CASE_TIMEOUT = 120
RULE = ('one evaluation = one multi-document stream consumed through one generator API / back-end / read-size schedule, '
        'with the bound checked at every document delivery (mode bound), the yield-before-raise order (mode order) or the '
        'release of the stream at one abandonment point (mode release); non-trivial = at least two documents or at least '
        'two refill blocks of input; distinct = distinct (stream text, api, back-end, form, read log, mode parameters) digests')
DISTINCT_MEASURE = 'distinct (stream digest, API, back-end, form, schedule, mode, abandonment point) tuples'
ASSUMPTIONS = [
    'end of document k = end offset of the DocumentStart / DocumentEnd / Directive / StreamEnd token that terminates it (a lenient choice), taken from a reference scan of the in-memory text',
    'refill block: 4096 stream units for the pure-Python reader, 16384 for LibYAML; the bound is 2 blocks with no extra tolerance',
    'release is observed with gc disabled through a weak reference to the stream object; CPython reference counting is assumed',
    'reader-level malformation before which documents are withheld is the known finding K1, accepted only with the ReaderError at the expected offset',
]
STUBS = ['caller input stream (SimReader)', 'the consumer of the generator (stop / close / throw / drop)']

BLOCK = {'py': 4096, 'c': 16384}
APIS = ['scan', 'parse', 'compose_all', 'load_all']
WORDS = ['alpha', 'beta', 'gamma', 'delta', 'lorem', 'ipsum', 'dolor', 'sit', 'amet', 'x', 'yy', 'zzz', '42', '3.14',
         'true', 'null', 'caf\u00e9', '\u4e2d\u6587', '\U0001F600', 'a b c', 'http://x.y/z']


# a stream in a script whose characters need 3-4 bytes each in UTF-8 (a text stream hands the C input handler characters,
# the parser wants bytes: whoever converts between the two must not ask for more than it was asked for)
WIDE_WORDS = ['\u4e2d\u6587', '\u65e5\u672c\u8a9e\u306e\u6587\u7ae0', '\ud55c\uad6d\uc5b4', '\U0001F600\U0001F680', '\u0939\u093f\u0928\u094d\u0926\u0940',
              '\u6f22\u5b57\u304b\u306a\u4ea4\u3058\u308a', '\U00020000\U0002A6D6', '\u0e20\u0e32\u0e29\u0e32\u0e44\u0e17\u0e22', '\u4e00', '\U0001F468\u200d\U0001F469']
ASCII_WORDS = list(WORDS)


def set_script(wide):
    WORDS[:] = WIDE_WORDS if wide else ASCII_WORDS


def canaries():
    return {'K1-eager-block-validation': {
        'api': 'load_all', 'backend': 'py', 'form': 'utf8', 'loader': None, 'malformed': 'reader-bad-utf8', 'mode': 'order',
        'parts': [{'kind': 'doc', 'text': '---\na: 1\n'}, {'kind': 'doc', 'text': '---\nb: 2\n'},
                  {'kind': 'bad', 'text': '---\nkey: va\udcfflue\n'}], 'sizes': [], 'then': None}}


def plan(tier):
    if tier == 'quick':
        return {'runs': 4000, 'wall': 300, 'batch': 4, 'shrink_s': 60, 'selfcheck': 6}
    return {'runs': 300000, 'wall': 2.5 * 3600, 'batch': 8, 'shrink_s': 120, 'selfcheck': 16}


# ---------------------------------------------------------------------------
# stream generation: a list of parts {'kind': 'doc'|'gap', 'text': ...}

def gen_body(r, target):
    """A valid document body (no leading ---) of roughly `target` characters."""
    kind = r.choice(['map', 'map', 'seq', 'seq', 'scalar', 'literal', 'flow', 'anchors', 'nested', 'longtoken'])
    w = lambda: r.choice(WORDS)
    lines = []
    if kind == 'longtoken':
        # one unbroken token of about `target` characters (unwrapped base64, a very long line, a long anchor / tag):
        # look-ahead inside a token must not pull more than the token needs
        tok = ''.join(r.choice('ABCDEFGHIJKLMNOPQRSTUVWXYZabcdefghijklmnopqrstuvwxyz0123456789+/') for _ in range(max(target, 8)))
        form = r.choice(['plain', 'dquote', 'squote', 'literal', 'keyed', 'anchor', 'tag', 'seqitem'])
        if form == 'plain':
            return tok + '\n'
        if form == 'dquote':
            return '"' + tok + '"\n'
        if form == 'squote':
            return "'" + tok + "'\n"
        if form == 'literal':
            return '|\n  ' + tok + '\n'
        if form == 'keyed':
            return 'data: ' + tok + '\nafter: x\n'
        if form == 'anchor':
            return '- &' + tok[:max(8, min(len(tok), 6000))].replace('+', 'p').replace('/', 's') + ' v\n- w\n'
        if form == 'tag':
            return '!<tag:example.com,2000:' + tok[:max(8, min(len(tok), 6000))].replace('+', 'p') + '> v\n'
        return '- a\n- ' + tok + '\n'
    if kind == 'scalar':
        s = r.choice(['plain text here', '"double \\n quoted"', "'single ''quoted'''", '12345', '~'])
        if target > 80:
            s = '"' + ' '.join(w().replace('"', '') for _ in range(target // 6)) + '"'
        return s + '\n'
    if kind == 'literal':
        lines.append(r.choice(['|', '>', '|-', '>+', '|2']))
        n = 0
        while n < max(target, 4):
            l = '  ' + w() + ' ' + w()
            lines.append(l)
            n += len(l) + 1
        return '\n'.join(lines) + '\n'
    if kind == 'flow':
        items = []
        n = 0
        while n < max(target, 4):
            it = r.choice(['%s' % w(), '{%s: %s}' % (w(), w()), '[%s, %s]' % (w(), w()), '"%s"' % w()])
            items.append(it)
            n += len(it) + 2
        sep = ',\n  ' if target > 60 else ', '
        return '[' + sep.join(items) + ']\n'
    if kind == 'anchors':
        lines = ['- &a%d %s' % (0, w())]
        n = 0
        i = 1
        while n < target:
            l = r.choice(['- *a0', '- &a%d [%s, *a0]' % (i, w()), '- {k: *a0}'])
            lines.append(l)
            n += len(l) + 1
            i += 1
        return '\n'.join(lines) + '\n'
    n = 0
    i = 0
    while n < max(target, 2):
        if kind == 'map':
            l = 'key%d: %s' % (i, r.choice([w(), '"%s"' % w(), "'%s'" % w(), '[%s, %s]' % (w(), w())]))
        elif kind == 'seq':
            l = '- %s' % r.choice([w(), '"%s %s"' % (w(), w()), '{a: %s}' % w()])
        else:
            l = 'k%d:\n  - %s\n  - sub: %s\n    more: |\n      %s\n      %s' % (i, w(), w(), w(), w())
        if r.random() < 0.05:
            l += '   # comment'
        lines.append(l)
        n += len(l) + 1
        i += 1
    return '\n'.join(lines) + '\n'


def gen_gap(r, big):
    """Text between two documents that belongs to neither: comments and blank lines."""
    x = r.random()
    if x < 0.5:
        return ''
    if x < 0.56:
        # one very long physical line between two documents (a line-oriented reader must not swallow it whole)
        return '# ' + 'c' * r.choice([5000, 9000, 13000, 20000]) + '\n'
    n = r.randint(1, 4) if not big else r.randint(50, 400)
    return ''.join(r.choice(['\n', '# comment %s\n' % ('c' * r.randint(0, 60)), '   \n']) for _ in range(n))


def gen_stream(r, backend, ndocs=None, tail_blocks=None):
    blk = BLOCK[backend]
    ndocs = ndocs or r.choice([1, 2, 2, 3, 4, 6, 8])
    parts = []
    for k in range(ndocs):
        x = r.random()
        if x < 0.45:
            target = r.randint(0, 60)
        elif x < 0.8:
            target = r.randint(60, 1500)
        else:
            target = r.randint(blk // 2, 3 * blk if backend == 'py' else 2 * blk)
        body = gen_body(r, target)
        head = ''
        prev_end = bool(parts) and parts[-1].get('ended')
        if k == 0:
            if r.random() < 0.5:
                head = '---\n' if r.random() < 0.8 else '--- # first\n'
            if r.random() < 0.15:
                head = '%YAML 1.1\n---\n'
        else:
            if prev_end and r.random() < 0.3:
                head = r.choice(['%YAML 1.1\n---\n', '%TAG !e! tag:example.com,2000:\n---\n'])
            elif r.random() < 0.1 and len(parts) >= 2 and not parts[-2].get('ended') and parts[-2]['text'].rstrip('\n').endswith((']', '}', '"', "'")):
                # a directive right after a document that a flow / quoted node has ended (no '...'), and comment lines
                # between the directive and the '---' it belongs to
                head = r.choice(['%YAML 1.1\n', '%TAG !e! tag:example.com,2000:\n']) + gen_gap(r, big=True) + \
                    ('# ' + 'c' * 70 + '\n') * r.choice([0, 5, 150, 300]) + '---\n'
            else:
                head = r.choice(['---\n', '---\n', '--- \n', '---   # doc\n'])
        single_plain = body[:1].isalnum() and body.count('\n') == 1 and ': ' not in body and ' #' not in body
        if (body.startswith(('[', '"', "'")) or single_plain) and head.endswith('---\n') and r.random() < 0.5:
            head = head[:-1] + ' '        # the document starts on the '---' line itself
        ended = r.random() < 0.3
        text = head + body + ('...\n' if ended else '')
        parts.append({'kind': 'doc', 'text': text, 'ended': ended})
        parts.append({'kind': 'gap', 'text': gen_gap(r, big=r.random() < 0.1)})
    # several blocks of tail so that "read it all" is distinguishable
    tb = tail_blocks if tail_blocks is not None else r.choice([0, 1, 3, 3, 4, 5])
    if tb:
        parts.append({'kind': 'doc', 'text': '---\n' + gen_body(r, tb * blk), 'ended': False, 'tail': True})
    return parts


MALFORMED = {
    'scanner-unclosed-dquote': '---\nkey: "unclosed\n',
    'scanner-bad-escape': '---\nkey: "bad \\q escape"\n',
    'scanner-tab-indent': '---\nkey:\n\t- tab\n',
    'scanner-mapping-values': '---\na: b: c\n',
    'scanner-unknown-directive-char': '---\n- a\n- @reserved\n',
    'parser-unclosed-flow': '---\nkey: [a, b\n',
    'parser-mismatched-flow': '---\n[a, b}\n',
    'parser-block-end': '---\n- a\nb: c\n',
    'parser-undefined-handle': '---\n- !x!y z\n',
    'parser-incompatible-version': '...\n%YAML 2.0\n---\nx\n',
    'parser-duplicate-yaml-directive': '...\n%YAML 1.1\n%YAML 1.1\n---\nx\n',
    'parser-duplicate-tag-handle': '...\n%TAG !a! tag:a.example,2000:\n%TAG !a! tag:b.example,2000:\n---\nx\n',
    'parser-directive-without-start': '...\n%YAML 1.1\nx: y\n',
    # the same directive-level errors directly after a document that was NOT closed with '...': the directive token is
    # what terminates the document before it, which must still be delivered first
    'parser-incompatible-version-no-end': '%YAML 2.0\n---\nx\n',
    'parser-duplicate-yaml-directive-no-end': '%YAML 1.1\n%YAML 1.1\n---\nx\n',
    'parser-duplicate-tag-handle-no-end': '%TAG !a! tag:a.example,2000:\n%TAG !a! tag:b.example,2000:\n---\nx\n',
    'composer-undefined-alias': '---\n- a\n- *nope\n',
    'composer-duplicate-anchor': '---\n- &d 1\n- &d 2\n',
    'constructor-unknown-tag': '---\n- !unknown/tag x\n',
    'constructor-unhashable-key': '---\n? [a]\n: b\n',
    'constructor-python-tag': '---\n- ok\n- !!python/object/apply:os.getcwd []\n',
    'constructor-bad-timestamp-tag': '---\n!!timestamp [not, a, scalar]\n',
    'constructor-bad-binary': '---\n- ok\n- !!binary "abcde"\n- [after]\n',
    'constructor-bad-binary-nested': '---\nk: {data: !!binary "not base64 \u00e9", more: [1]}\n',
    'constructor-nested-unknown-tag': '---\nouter: {a: [1, 2], b: {c: [3]}, d: !nosuch x}\nlater: [4]\n',
    'constructor-nested-in-sequence': '---\n- [1, [2, [3]]]\n- {k: {j: !nosuch y}}\n',
    # no '---': junk right after a document that a flow collection / quoted / block scalar has really terminated
    'parser-junk-after-terminated-document': '[junk, after]\n',
    'parser-junk-scalar-after-terminated-document': '"junk"\n',
    # stray text on the line of the '...' marker itself: the marker ends the document before it, the text is the (malformed) next one
    'parser-text-after-document-end-marker': '... three\n',
    'parser-flow-after-document-end-marker': '...\t[5, 6]\n',
    'reader-nonprintable': '---\nkey: va\x01lue\n',
    'reader-bad-utf8': '---\nkey: va\udcfflue\n',     # U+DCFF is replaced by the raw byte FF when encoded (bytes forms only)
}


def generate(seed, tier):
    r = kernel.rng(seed, 'case')
    rd = kernel.rng(seed, 'doc')
    rs = kernel.rng(seed, 'schedule')
    backend = r.choice(['py', 'c'])
    api = r.choice(APIS)
    mode = r.choice(['bound', 'bound', 'bound', 'order', 'order', 'release'])
    form = r.choice(['text', 'utf8', 'utf8', 'utf16le'])
    case = {'mode': mode, 'api': api, 'backend': backend, 'form': form, 'loader': None}
    blk = BLOCK[backend]
    set_script(r.random() < 0.15)
    try:
        return _generate(seed, r, rd, rs, case, mode, api, backend, form, blk, tier)
    finally:
        set_script(False)


def _generate(seed, r, rd, rs, case, mode, api, backend, form, blk, tier):
    if mode == 'bound':
        parts = gen_stream(rd, backend)
        # a fifth of the bound runs go through a real file-like object (io.StringIO / io.BytesIO) instead of the
        # simulated stream: code that treats genuine io objects specially (readline, readinto, peek) is only reachable there
        case['via'] = 'io' if r.random() < 0.3 else 'sim'
        if r.random() < 0.012 and form != 'utf16le':
            # a stream of several MiB made of thousands of small documents: the look-ahead must not grow with the
            # offset or with the number of documents already delivered
            unit = '--- {n: %d, w: %s}\n# %s\n' % (rd.randint(0, 99), rd.choice(WORDS[:10]), 'c' * rd.choice([1000, 2000, 3900]))
            parts = [{'kind': 'doc', 'text': unit, 'ended': False, 'repeat': int(rd.choice([2.6e6, 3.4e6, 4.3e6]) / len(unit))}]
            case['via'] = 'sim'
            case['huge'] = True
        if case['via'] == 'io' and form != 'text' and r.random() < 0.4:
            case['via'] = 'rawio'        # an unbuffered binary file object (io.RawIOBase): nobody may put a big buffer in front of it
        elif case['via'] == 'io' and form != 'text' and r.random() < 0.4:
            case['via'] = r.choice(['file', 'file', 'file-unbuffered'])     # a genuine file on disk (it has a fileno() and a size)
        if case['via'] == 'io' and r.random() < 0.6 and len(parts) >= 2:
            # a document whose '---' line is itself longer than two refill blocks: whoever refills by physical
            # lines (readline, iteration over the file) takes all of it before the previous document is delivered
            tok = ''.join(rd.choice('abcdefghijklmnopqrstuvwxyz0123456789') for _ in range(rd.randint(int(2.2 * blk), 3 * blk)))
            doc = {'kind': 'doc', 'text': '--- ' + rd.choice(['%s', '"%s"', "'%s'", '[%s]']) % tok + '\n', 'ended': False}
            at = rd.randrange(1, len(parts))
            while at < len(parts) and parts[at - 1]['kind'] == 'doc' and not parts[at - 1]['text'].endswith('\n'):
                at += 1
            parts.insert(at, doc)
    elif mode == 'order':
        parts = gen_stream(rd, backend, ndocs=r.choice([0, 1, 2, 3, 5]), tail_blocks=0)
        kinds = sorted(MALFORMED)
        if api != 'load_all':
            kinds = [k for k in kinds if not k.startswith('constructor')]
        if api in ('scan', 'parse'):
            kinds = [k for k in kinds if not k.startswith('composer')]
        if api == 'scan':
            kinds = [k for k in kinds if not k.startswith('parser')]
        bad = r.choice(kinds)
        if bad == 'reader-bad-utf8' and form != 'utf8':
            form = case['form'] = 'utf8'
        case['malformed'] = bad
        if bad.endswith('-no-end'):
            # the document before the directive must not swallow the '%' line: end it with a flow / quoted node
            parts.append({'kind': 'doc', 'text': '--- ' + r.choice(['[a, b]', '{a: b}', '"quoted"', "'single'"]) + '\n'})
        if bad.endswith('-after-document-end-marker') and parts and parts[-1]['kind'] == 'gap':
            parts.pop()
        if bad.startswith('parser-junk'):
            # the document before the junk must end in a token that terminates it for good
            parts.append({'kind': 'doc', 'text': '--- ' + r.choice(['[a, b]', '{a: b}', '"quoted"', "'single'", '|\n  literal\n  text', '&x [1]'])
                          + r.choice(['\n', '\n\n', '   # c\n'])})
        parts.append({'kind': 'bad', 'text': MALFORMED[bad]})
        if r.random() < 0.5:
            parts.append({'kind': 'doc', 'text': '---\n' + gen_body(rd, r.choice([10, 500, blk])), 'tail': True})
    else:
        nd = r.choice([1, 2, 3, 4])
        parts = gen_stream(rd, backend, ndocs=nd, tail_blocks=r.choice([0, 1, 2]))
        case['loader'] = r.choice(['SafeLoader', 'FullLoader', 'Loader', 'BaseLoader', 'UnsafeLoader']) if backend == 'py' \
            else r.choice(['CSafeLoader', 'CFullLoader', 'CLoader', 'CBaseLoader', 'CUnsafeLoader'])
        if r.random() < 0.35:
            # the iteration may also end with a YAMLError: a malformed document somewhere in the stream
            kinds = [k for k in sorted(MALFORMED) if not k.startswith(('reader', 'parser-junk')) and not k.endswith('-no-end')]
            bad = r.choice(kinds + [k for k in kinds if k.startswith('constructor')] * 2)
            case['malformed'] = bad
            parts.insert(r.randrange(len(parts) + 1), {'kind': 'bad', 'text': MALFORMED[bad]})
        if r.random() < 0.3 and not case['loader'].endswith('BaseLoader'):
            # application tags served by a multi-constructor (prefix lookup) and by a two-step constructor
            case['loader'] = 'Custom:' + case['loader']
            parts.insert(r.randrange(len(parts) + 1), {'kind': 'doc', 'text': '---\n- !m/a {x: 1}\n- !m/b [1, 2]\n- !two {p: [1], q: !m/c z}\n'})
        after = r.randint(0, nd + 1) if api in ('load_all', 'compose_all') else r.choice([r.randint(0, 6), r.randint(0, 60)])
        case['abandon'] = {'after': after, 'how': r.choice(['close', 'throw', 'del', 'del', 'exhaust', 'stream_error', 'stream_error'])}
        if case['abandon']['how'] == 'stream_error':
            case['abandon']['read'] = r.choice([0, 1, 2, 2, 3, 3, 4, 5, 8, 13, 30])
        elif r.random() < 0.2:
            case['abandon']['inmemory'] = True      # the input is a str / bytes object, not a stream: the loader must go all the same
    case['parts'] = parts
    rw = kernel.rng(seed, 'wrapper')
    if api == 'load_all' and backend == 'py' and rw.random() < 0.3 and not (case.get('loader') or '').startswith('Custom:') \
            and not (case.get('abandon') or {}).get('inmemory'):
        # the convenience wrappers are generator functions of their own
        if mode == 'release':
            w = {'SafeLoader': 'safe_load_all', 'FullLoader': 'full_load_all', 'UnsafeLoader': 'unsafe_load_all'}.get(case['loader'])
        elif mode == 'order' and case['malformed'] == 'constructor-python-tag':
            w = rw.choice(['safe_load_all', 'full_load_all'])
        else:
            w = rw.choice(['safe_load_all', 'full_load_all', 'unsafe_load_all'])
        if w:
            case['wrapper'] = w
            case['loader'] = {'s': 'SafeLoader', 'f': 'FullLoader', 'u': 'UnsafeLoader'}[w[0]]
    n = sum(len(p['text']) for p in parts) * (2 if form == 'utf16le' else 1)
    x = rs.random()
    if x < 0.3:
        sched = {'sizes': [], 'then': None}
    elif x < 0.5:
        sched = {'sizes': [rs.choice([1, 2, 3, 100, 1000, blk - 1, blk, blk + 1]) for _ in range(rs.randint(1, 30))], 'then': None}
    elif x < 0.7:
        sched = {'sizes': [rs.randint(1, 2 * blk) for _ in range(40)], 'then': rs.choice([None, 1, 7, 512, blk])}
    elif x < 0.85:
        sched = {'sizes': [], 'then': rs.choice([1, 2, 3, 5, 64])}
    else:
        sched = {'sizes': [rs.choice([1, blk]) for _ in range(60)], 'then': None}
    case.update(sizes=sched['sizes'], then=sched['then'])
    if case.get('huge'):
        case.update(sizes=[], then=None)        # the stream hands out whatever is asked for
    return case


def describe(case):
    d = {k: case.get(k) for k in ('mode', 'api', 'wrapper', 'backend', 'form', 'loader', 'malformed', 'abandon', 'then')}
    d['sizes_head'] = (case.get('sizes') or [])[:10]
    d['parts'] = [[p['kind'], len(p['text']), p['text'][:40]] for p in case['parts'][:8]]
    d['total_chars'] = sum(len(p['text']) * p.get('repeat', 1) for p in case['parts'])
    return d


# ---------------------------------------------------------------------------

def encode(text, form):
    if form == 'text':
        return text
    if form == 'utf8':
        return text.encode('utf-8', 'surrogateescape')
    return b'\xff\xfe' + text.encode('utf-16-le')


def unit_offset(text, idx, form):
    """Offset in stream units of character index idx."""
    if form == 'text':
        return idx
    if form == 'utf8':
        return len(text[:idx].encode('utf-8', 'surrogateescape'))
    return 2 + len(text[:idx].encode('utf-16-le'))


_custom = {}


def custom_loader(yaml, base):
    """Subclass with a multi-constructor (prefix '!m/') and a two-step (generator) constructor ('!two')."""
    if base not in _custom:
        cls = type('Custom' + base, (getattr(yaml, base),), {})

        def multi(loader, suffix, node):
            if isinstance(node, yaml.MappingNode):
                return [suffix, loader.construct_mapping(node, deep=True)]
            if isinstance(node, yaml.SequenceNode):
                return [suffix, loader.construct_sequence(node, deep=True)]
            return [suffix, loader.construct_scalar(node)]

        def two_step(loader, node):
            data = {}
            yield data
            data.update(loader.construct_mapping(node))
        cls.add_multi_constructor('!m/', multi)
        cls.add_constructor('!two', two_step)
        _custom[base] = cls
    return _custom[base]


def loader_for(yaml, case):
    if (case.get('loader') or '').startswith('Custom:'):
        return custom_loader(yaml, case['loader'][7:])
    if case.get('loader'):
        return getattr(yaml, case['loader'])
    return yaml.SafeLoader if case['backend'] == 'py' else yaml.CSafeLoader


def doc_ends(yaml, text):
    """End index (characters) of the terminating token of each document, from a reference
    scan + parse of the in-memory text with the pure-Python loader."""
    toks = list(yaml.scan(text, Loader=yaml.SafeLoader))
    by_start = {}
    for t in toks:
        if isinstance(t, (yaml.DocumentStartToken, yaml.DirectiveToken, yaml.StreamEndToken, yaml.DocumentEndToken)):
            by_start.setdefault(t.start_mark.index, t)
    ends = []
    for ev in yaml.parse(text, Loader=yaml.SafeLoader):
        if isinstance(ev, yaml.DocumentEndEvent):
            if ev.explicit:
                ends.append(ev.end_mark.index)
            else:
                t = by_start.get(ev.start_mark.index)
                ends.append(t.end_mark.index if t is not None else ev.end_mark.index)
    return ends


def execute(case):
    import yaml
    out = {'violations': [], 'evals': 1, 'probes': {}, 'faults': {}, 'sigs': [], 'extra': {}}
    if case['backend'] == 'c' and not getattr(yaml, '__with_libyaml__', False):
        out['extra']['c_backend_not_run'] = 1
        out['log'] = 'no-c'
        return out
    text = ''.join(p['text'] * p.get('repeat', 1) for p in case['parts'])
    form, api, backend = case['form'], case['api'], case['backend']
    blk = BLOCK[backend]
    L = loader_for(yaml, case)
    data = encode(text, form)
    log = []

    def call(src, loader_cls):
        if case.get('wrapper'):
            out['probes']['runs_through_convenience_wrappers'] = 1
            return getattr(yaml, case['wrapper'])(src)
        return getattr(yaml, api)(src, Loader=loader_cls)
    mode = case['mode']
    sig_extra = None
    logparts = []
    tempfiles = []

    if mode == 'bound':
        try:
            ends = doc_ends(yaml, text)
        except yaml.YAMLError as exc:
            out['extra']['generated_stream_invalid'] = 1
            out['log'] = 'invalid-' + type(exc).__name__
            return out
        ends_u = [unit_offset(text, e, form) for e in ends]
        if case.get('via') == 'rawio' and not isinstance(data, str):
            import io

            class CountingRaw(io.RawIOBase):
                def __init__(self, payload):
                    self.payload, self.pos = payload, 0

                def readable(self):
                    return True

                def readinto(self, b):
                    piece = self.payload[self.pos:self.pos + len(b)]
                    b[:len(piece)] = piece
                    self.pos += len(piece)
                    return len(piece)
            stream = CountingRaw(data)
            consumed = lambda: stream.pos
            out['probes']['bound_runs_through_raw_io_objects'] = 1
        elif case.get('via') in ('file', 'file-unbuffered') and not isinstance(data, str):
            import os
            import tempfile
            fd, path = tempfile.mkstemp(prefix='verif-c18-', suffix='.yaml')
            with os.fdopen(fd, 'wb') as f:
                f.write(data)
            stream = open(path, 'rb', buffering=0) if case['via'] == 'file-unbuffered' else open(path, 'rb', buffering=4096)
            os.unlink(path)
            tempfiles.append(stream)

            class Counting:
                # the file object itself, with read() counted (everything else - fileno(), name, mode, seek ... - is forwarded)
                def __init__(self, f):
                    self._f, self.pos = f, 0

                def read(self, n=-1):
                    piece = self._f.read(n)
                    self.pos += len(piece)
                    return piece

                def __getattr__(self, name):
                    return getattr(self._f, name)
            stream = Counting(stream)
            consumed = lambda: stream.pos
            out['probes']['bound_runs_through_files_on_disk'] = 1
        elif case.get('via') in ('io', 'rawio', 'file', 'file-unbuffered'):
            import io
            stream = io.StringIO(data) if isinstance(data, str) else io.BytesIO(data)
            consumed = stream.tell
            out['probes']['bound_runs_through_real_io_objects'] = 1
        else:
            stream = SimReader(data, case['sizes'], case['then'], log=log)
            consumed = lambda: stream.pos
        k = 0
        worst = None
        try:
            for it in call(stream, L):
                deliver = False
                if api in ('load_all', 'compose_all'):
                    deliver = True
                elif api == 'parse':
                    deliver = isinstance(it, yaml.DocumentEndEvent)
                else:
                    # the token that terminates document k
                    if k < len(ends) and isinstance(it, (yaml.DocumentStartToken, yaml.DirectiveToken, yaml.StreamEndToken,
                                                          yaml.DocumentEndToken)) and it.end_mark.index == ends[k]:
                        deliver = True
                if deliver:
                    if k >= len(ends_u):
                        out['violations'].append({'class': 'more-documents-than-reference', 'detail': {'k': k}})
                        break
                    pos = consumed()
                    slack = pos - ends_u[k]
                    logparts.append([k, pos, ends_u[k]])
                    if worst is None or slack > worst:
                        worst = slack
                    if slack > 2 * blk:
                        out['violations'].append({'class': 'consumed-beyond-bound', 'detail': {
                            'document': k, 'units_handed_out': pos, 'end_of_document': ends_u[k], 'slack': slack, 'via': case.get('via', 'sim'),
                            'bound': 2 * blk, 'total_units': len(data)}})
                        break
                    k += 1
        except yaml.YAMLError as exc:
            # documents are generated valid for the reference scan; a loader-specific error is not C18's business
            out['extra']['stream_error_' + type(exc).__name__] = 1
        if not out['violations'] and api != 'scan' and k != len(ends) and not any(
                key.startswith('stream_error_') for key in out['extra']):
            out['violations'].append({'class': 'document-count-differs', 'detail': {'delivered': k, 'reference': len(ends)}})
        if worst is not None:
            out['probes']['slack_ge_1_block_%s' % backend] = 1 if worst >= blk else 0
            out['probes']['slack_ge_1.9_blocks_%s' % backend] = 1 if worst >= 1.9 * blk else 0
            out['maxima'] = {'max_slack_%s' % backend: worst}
        out['probes']['streams_with_tail_beyond_bound'] = 1 if ends_u and len(data) - ends_u[0] > 2 * blk else 0
        out['probes']['documents_delivered'] = k

    elif mode == 'order':
        good = [p['text'] for p in case['parts'] if p['kind'] == 'doc' and not p.get('tail')]
        bad_kind = case['malformed']
        # isolated expectation: every good document alone
        expected = []
        good_text = ''.join(p['text'] for p in case['parts'][:[i for i, p in enumerate(case['parts']) if p['kind'] == 'bad'][0]])
        try:
            if api == 'load_all':
                expected = [observe.value(v) for v in yaml.load_all(good_text, Loader=L)]
            elif api == 'compose_all':
                expected = [observe.node(v) for v in yaml.compose_all(good_text, Loader=L)]
            elif api == 'parse':
                expected = [1 for ev in yaml.parse(good_text, Loader=L) if isinstance(ev, yaml.DocumentEndEvent)]
            else:
                expected = None
        except yaml.YAMLError as exc:
            out['extra']['generated_stream_invalid'] = 1
            out['log'] = 'invalid-' + type(exc).__name__
            return out
        stream = SimReader(data, case['sizes'], case['then'], log=log)
        got, err = [], None
        n_tokens_before = 0
        shift = 1 if (backend == 'py' and form == 'utf16le') else 0
        try:
            for it in call(stream, L):
                if api == 'load_all':
                    got.append(observe.value(it))
                elif api == 'compose_all':
                    got.append(observe.node(it, shift))
                elif api == 'parse':
                    if isinstance(it, yaml.DocumentEndEvent):
                        got.append(1)
                else:
                    n_tokens_before += 1
        except Exception as exc:
            err = exc
        out['faults']['malformed:' + bad_kind] = 1
        logparts.append([len(got), type(err).__name__ if err else None, n_tokens_before])
        if err is None:
            out['violations'].append({'class': 'malformed-document-accepted', 'detail': {'malformed': bad_kind, 'delivered': len(got)}})
        elif api == 'scan':
            # tokens of the good documents precede the error: compare with the in-memory token count of the good part
            ref_n = sum(1 for _ in yaml.scan(good_text, Loader=L)) - 1     # without the StreamEnd token
            if n_tokens_before < ref_n:
                cls = 'K1-eager-block-validation' if bad_kind.startswith('reader') and isinstance(err, yaml.reader.ReaderError) \
                    else 'tokens-withheld-before-error'
                out['violations'].append({'class': cls, 'detail': {'malformed': bad_kind, 'tokens': n_tokens_before,
                                                                  'tokens_of_good_documents': ref_n, 'error': observe.error(err)}})
        else:
            if got != expected[:len(got)]:
                out['violations'].append({'class': 'delivered-documents-differ', 'detail': {'malformed': bad_kind, 'delivered': len(got)}})
            elif len(got) > len(expected):
                out['violations'].append({'class': 'too-many-documents', 'detail': {'malformed': bad_kind, 'delivered': len(got)}})
            elif len(got) < len(expected):
                if bad_kind.startswith('reader') and isinstance(err, yaml.reader.ReaderError) and reader_pos_ok(err, text, form, backend):
                    out['violations'].append({'class': 'K1-eager-block-validation', 'detail': {
                        'malformed': bad_kind, 'delivered': len(got), 'good_documents': len(expected), 'error': observe.error(err)}})
                else:
                    out['violations'].append({'class': 'documents-withheld-before-error', 'detail': {
                        'malformed': bad_kind, 'delivered': len(got), 'good_documents': len(expected),
                        'error': observe.error(err)}})
        out['probes']['order_runs_with_ge_1_good_document'] = 1 if good else 0

    else:
        ab = case['abandon']
        was = gc.isenabled()
        gc.disable()
        try:
            fault = None
            if ab['how'] == 'stream_error':
                fault = (ab['read'], lambda: OSError(5, 'simulated I/O error'))
            stream = SimReader(data, case['sizes'], case['then'], log=log, fault=fault)
            ref = weakref.ref(stream)
            if ab.get('inmemory'):
                stream = data
                ref = lambda: None
            loaders = []

            class Probe(L):
                # the property speaks of the loader: watch the loader object itself, not only the stream it holds
                def __init__(self, s):
                    loaders.append(weakref.ref(self))
                    super().__init__(s)
            Probe.__name__ = L.__name__
            gen = call(stream, Probe)
            del stream
            n = 0
            err = None
            try:
                if ab['how'] in ('exhaust', 'stream_error'):
                    for _ in gen:
                        n += 1
                else:
                    for _ in range(ab['after']):
                        next(gen)
                        n += 1
            except StopIteration:
                pass
            except (yaml.YAMLError, OSError) as exc:
                err = type(exc).__name__
                del exc
            if ab['how'] == 'close':
                gen.close()
            elif ab['how'] == 'throw':
                try:
                    gen.throw(KeyError('abandon'))
                except KeyError:
                    pass
                except StopIteration:
                    pass
            del gen
            alive = ref() is not None
            loader_alive = any(w() is not None for w in loaders)
            logparts.append([n, err, alive, loader_alive])
            if loader_alive and not alive:
                out['violations'].append({'class': 'loader-not-released-on-abandon', 'detail': {
                    'how': ab['how'], 'items_consumed': n, 'loader': case['loader'], 'ended_with': err,
                    'referrers': [type(x).__name__ for w in loaders if w() is not None for x in gc.get_referrers(w())][:6]}})
            out['faults']['abandon:' + ab['how']] = 1
            if err == 'OSError':
                out['faults']['stream-exception-ends-iteration'] = 1
            if alive:
                referrers = [type(x).__name__ for x in gc.get_referrers(ref())][:6]
                out['violations'].append({'class': 'stream-not-released-on-abandon', 'detail': {
                    'how': ab['how'], 'items_consumed': n, 'loader': case['loader'], 'ended_with': err, 'referrers': referrers}})
            sig_extra = [ab['how'], n]
            out['probes']['abandoned_mid_stream'] = 1 if (n and ab['how'] != 'exhaust') else 0
        finally:
            if was:
                gc.enable()
            gc.collect()

    for f in tempfiles:
        try:
            f.close()
        except OSError:
            pass
    readlog = [(e[3], e[4]) for e in log]
    ndocs = sum(1 for p in case['parts'] if p['kind'] == 'doc')
    if ndocs >= 2 or len(data) >= 2 * blk:
        out['sigs'].append(observe.digest([observe.digest(text), api, backend, form, mode, case.get('loader'),
                                           case.get('malformed'), sig_extra, readlog[:200], len(readlog)]))
    logparts.append(readlog)
    out['log'] = observe.digest(logparts)
    out['sample'] = describe(case)
    return out


def reader_pos_ok(err, text, form, backend):
    idx = text.find('\x01')
    if idx < 0:
        idx = text.find('\udcff')
        if idx < 0:
            return False
        return err.position == unit_offset(text, idx, 'utf8')
    if backend == 'py':
        return err.position == idx + (1 if form == 'utf16le' else 0)
    return err.position == unit_offset(text, idx, 'utf8' if form == 'text' else form)


def coverage_extra(agg):
    return {}


# ---------------------------------------------------------------------------

def shrink(case):
    parts = case['parts']
    if len(parts) > 1:
        for cand in shr.list_candidates(parts, 1):
            if case['mode'] == 'order' and not any(p['kind'] == 'bad' for p in cand):
                continue
            yield dict(case, parts=cand)
    for i, p in enumerate(parts):
        if p['kind'] != 'bad' and len(p['text']) > 40:
            lines = p['text'].splitlines(keepends=True)
            for cand in shr.list_candidates(lines, 1):
                yield dict(case, parts=parts[:i] + [dict(p, text=''.join(cand))] + parts[i + 1:])
                break
    if case.get('sizes'):
        for s in shr.sizes_candidates(case['sizes']):
            yield dict(case, sizes=s)
    if case['mode'] == 'release' and case['abandon']['after'] > 0:
        for a in shr.int_candidates(case['abandon']['after']):
            yield dict(case, abandon=dict(case['abandon'], after=a))
