"""C11 - every call and every document stands alone.

Simulated: the history of API calls inside one process.  Three modes:
 history     - a seeded schedule of steps over a pool of operations: complete calls; calls that
               fail half-way (stream exception at a chosen read / write index; asynchronous
               interrupt raised at a chosen line of lib/yaml via sys.settrace); generator calls
               that are started, advanced, closed, thrown into or dropped in an interleaving
               decided by the scheduler; dumps whose documents iterable performs another call
               between documents; constructors that make a re-entrant call.  The history runs
               in a forked child.  Oracle: every observation equals the *isolated reference* of
               the same operation (executed alone in a pristine fork), and the digest of the
               library's global state after every step equals the digest before the history.
 stream_load - documents d1..dn of the pool, each explicit and terminated by '...', concatenated:
               load_all / compose_all / parse / scan of the concatenation must give, per
               document, what the document gives alone (marks shifted by its offset); an invalid
               document ends the stream with its own isolated error after exactly the earlier
               documents' items.
 stream_dump - dump_all([v1..vn]) (objects shared across documents): the events of document i,
               anchors, tags and directives included, equal the events of dump_all([vi]).
"""
import os
import re
import sys

from sim import corpus, kernel, observe, values
from sim import shrink as shr
from sim.streams import SimReader, SimWriter

PROPERTY = 'C11'
LEVEL = 'exploration'
CASE_TIMEOUT = 180
REPLAY_ATTEMPTS = 8      # a leak through id()-keyed state depends on address reuse, which the simulator does not own
RULE = ('one evaluation = one step of a history (a complete call, a faulted or interrupted call, one generator step) or one '
        'document of a concatenated stream, each compared with its isolated reference; non-trivial = the step was preceded by '
        'at least one other call in the same process or document in the same stream; distinct = distinct (operation, '
        'preceding operation) pairs plus distinct generator interleaving signatures plus distinct document adjacencies')
DISTINCT_MEASURE = 'distinct (operation digest, preceding operation digest) pairs, interleaving signatures of live generators, (document, preceding document) adjacencies'
ASSUMPTIONS = [
    'reference = the same operation (same fault plan) executed as the only call in a child forked from a process that has imported yaml and made no call',
    'an interrupted call (SimInterrupt raised from a trace function at the k-th line event inside lib/yaml) is not itself compared; what is compared is every later call and the global state',
    'only Python frames can be interrupted: for the LibYAML back-end that covers constructors, representers, resolvers and the cyaml glue, not LibYAML itself',
    'thread interleavings are not simulated: the property speaks of calls that precede a call, and PyYAML documents no thread-safety contract',
    'stream clause: pool documents start with directives or ---, are terminated by ..., contain no reader-level defect (that is known finding K1 of C07/C18), and invalid ones fail before their own end',
    'global state = every module namespace entry and class attribute of the yaml package: containers by value, functions / classes / compiled regexes by identity (sim/observe.py)',
]
STUBS = ['caller streams (SimReader / SimWriter)', 'the scheduler stepping live generators', 'user data class Obj, re-entrant constructor / documents iterable']

LOADERS = ['BaseLoader', 'SafeLoader', 'FullLoader', 'UnsafeLoader', 'CBaseLoader', 'CSafeLoader', 'CFullLoader', 'CUnsafeLoader']
DUMPERS = ['SafeDumper', 'Dumper', 'CSafeDumper', 'CDumper', 'BaseDumper', 'CBaseDumper']
GEN_APIS = ['scan', 'parse', 'compose_all', 'load_all']


class SimInterrupt(BaseException):
    pass


class SimError(Exception):
    pass


class Obj:
    """User data class (module-level so that !!python/object can name it)."""

    def __init__(self, v=None):
        self.v = v

    def __repr__(self):
        return 'Obj(%r)' % (self.v,)


def plan(tier):
    if tier == 'quick':
        return {'runs': 3000, 'wall': 300, 'batch': 8, 'shrink_s': 60, 'selfcheck': 6}
    return {'runs': 600000, 'wall': 2.5 * 3600, 'batch': 16, 'shrink_s': 120, 'selfcheck': 16}


# ---------------------------------------------------------------------------
# the pool

DOCS = {
    'plain': '--- hello\n',
    'empty': '---\n',
    'map': '---\na: 1\nb: [x, y]\nc: {k: v}\n',
    'anchor': '---\nbase: &x {a: 1}\nuse: *x\nlist: [*x, &y z, *y]\n',
    'anchor2': '---\n- &x other\n- *x\n',
    'alias_undef_x': '---\nuse: *x\n',
    'alias_undef_y': '--- [*y]\n',
    'yaml11': '%YAML 1.1\n---\nv: 1\n',
    'tag_e': '%TAG !e! tag:e.example,2000:\n---\n- !e!thing {a: 1}\n',
    'tag_e_undeclared': '---\n- !e!thing x\n',
    'tag_bang': '%TAG ! tag:bang.example,2000:\n--- !foo bar\n',
    'bang': '--- !foo bar\n',
    'tag_dbl': '%TAG !! tag:dbl.example,2000:\n--- !!str x\n',
    'dbl': '--- !!str 12\n',
    'rec_seq': '--- &a [1, *a]\n',
    'rec_map': '--- &m {self: *m, k: v}\n',
    'merge': '---\nbase: &b {x: 1, y: 2}\nd1: {<<: *b, y: 3}\nd2: {<<: [*b, {z: 9}]}\n',
    'types': '---\n- 1\n- 1.5\n- true\n- ~\n- 2001-12-14\n- !!binary aGVsbG8=\n- !!set {a, b}\n- !!omap [a: 1, b: 2]\n- 0x1F\n- 1:30\n',
    'literal': '--- |\n  literal\n  text\n',
    'folded': '--- >-\n folded\n text\n',
    'flow': '--- {a: [1, 2, {b: c}], "q": \'r\'}\n',
    'unicode': '--- "caf\\u00e9 \\U0001F600 \u00fcn\u00ef"\n',
    'dup_anchor': '---\n- &a 1\n- &a 2\n- *a\n',
    'tag_e_verbatim': '---\n- !<tag:e.example,2000:thing> {a: 1}\n',
    'tag_bang_verbatim': '--- !<tag:bang.example,2000:foo> bar\n',
    'pytuple': '--- !!python/tuple [1, 2]\n',
    'pyobj': '--- !!python/object:checks.c11.Obj {v: 1}\n',
    'long': '---\n' + ''.join('- item %d: [%d, %s]\n' % (i, i * i, 'abc' * (i % 7)) for i in range(60)),
    'keys': '---\n? [complex, key]\n: value\n? |\n  block key\n: v2\n',
    # short documents made of multi-byte characters: any small piece size splits a sequence
    'cyrillic': '---\n\u043a\u043b\u044e\u0447: \u0437\u043d\u0430\u0447\u0435\u043d\u0438\u0435\n\u0441\u043f\u0438\u0441\u043e\u043a: [\u043e\u0434\u0438\u043d, \u0434\u0432\u0430]\n',
    'cjk': '--- [\u65e5\u672c\u8a9e, \u4e2d\u6587, "\U0001F600\U0001F680", \u00df\u00fc\u00e9]\n',
    # many aliases to one collection
    'many_aliases': '---\n- &m {a: 1}\n' + '- *m\n' * 40,
    # three refill blocks of multi-byte characters at shifting offsets: every 4096-byte boundary splits a sequence
    'bigmb': '---\n' + ''.join('- %s: "%s"\n' % ('k' * (i % 3 + 1), ('\u00e9\u20ac' * 11 + '\U0001F600') * 2) for i in range(95)),
    # invalid, failing before their own end
    'e_scan_mapval': '---\na: b: c\n',
    'e_scan_brace': '--- [a, b}\n',
    'e_scan_escape': '--- "\\q"\n',
    'e_scan_at': '--- @x\n',
    'e_dup_yaml': '%YAML 1.1\n%YAML 1.1\n---\nx\n',
    'e_yaml2': '%YAML 2.0\n---\nx\n',
    'e_dup_tag': '%TAG !a! tag:a,1:\n%TAG !a! tag:b,1:\n--- x\n',
    'e_apply': '--- !!python/object/apply:os.getcwd []\n',
    'e_unhashable': '--- {[a]: b}\n',
    'e_unknown_tag': '--- !unknown x\n',
    'e_indent': '---\na:\n  - x\n - y\n',
    'e_dup_anchor_alias': '---\n- *a\n- &a 1\n',
    # a user constructor that builds its node with deep=True (harness classes 'Deep<Loader>'; an unknown tag elsewhere)
    'deep_ok': '--- !deep {a: [1, 2], b: {c: d}}\n',
    'e_deep': '--- !deep {a: [1, !nosuch x], b: 2}\n',
    'e_apply_deep': '--- !!python/object/apply:builtins.dict [[[a, !nosuch x]]]\n',
    # re-entrant constructor
    'reent': '---\n- before\n- !reent x\n- after: &a [1]\n- *a\n',
}
DOC_IDS = sorted(DOCS)
# documents that use the same names (tag handles, full tags, anchors, directives): cross-document leaks show
# when such documents are neighbours, so the stream modes draw half of their streams from one group
RELATED = [
    ['tag_e', 'tag_e_verbatim', 'tag_e_undeclared'],
    ['tag_bang', 'bang', 'tag_bang_verbatim'],
    ['tag_dbl', 'dbl', 'types'],
    ['anchor', 'anchor2', 'alias_undef_x', 'alias_undef_y', 'dup_anchor', 'rec_seq', 'e_dup_anchor_alias'],
    ['yaml11', 'plain', 'e_yaml2', 'e_dup_yaml', 'map'],
    ['merge', 'merge', 'anchor', 'map'],
    ['cyrillic', 'cjk', 'unicode', 'bigmb'],
    ['many_aliases', 'many_aliases', 'anchor'],
]


def related_docs(r, n, valid_only=False):
    group = r.choice(RELATED)
    docs = [r.choice(group) for _ in range(n)]
    if valid_only:
        docs = [d for d in docs if d in VALID_DOCS] or ['plain']
    return docs
VALID_DOCS = [d for d in DOC_IDS if not d.startswith('e_') and d not in ('alias_undef_x', 'alias_undef_y', 'tag_e_undeclared', 'reent')]


def make_values():
    import datetime
    shared = [1, 2]
    rec = []
    rec.append(rec)
    recm = {}
    recm['self'] = recm
    o = Obj(1)
    return {
        'plain': {'a': 1, 'b': [1, 2, 'x'], 'c': None},
        'shared': {'p': shared, 'q': shared},
        'shared_list': [shared, shared, [shared]],
        'rec': rec,
        'recm': recm,
        'obj': Obj([1, 2]),
        'obj_shared': [o, o],
        'strs': ['multi\nline', 'caf\u00e9', '', ' lead', 'yes', '1', 'a: b', '\U0001F600'],
        'set': {'a', 'b', 'c'},
        'dates': [datetime.date(2001, 12, 14), datetime.datetime(2001, 12, 14, 21, 59, 43)],
        'bytes': b'\x00\x01binary\xff',
        'tuple': (1, 2, (3,)),
        'big': list(range(300)),
        'unrepr': {'ok': 1, 'bad': (x for x in ())},
        'scalar': 'just a string',
        'none': None,
        'nested': {'k': [{'a': [1, {'b': 2}]}, 'x'], 'z': {'y': {'x': 0}}},
        'mixedkeys': {1: 'a', 'two': 'b', 2.5: 'c', None: 'd'},
        'unsorted': {'zeta': 1, 'alpha': 2, 'mid': {'y': 1, 'b': 2}, 'beta': 3},
        # ==-equal scalars of different type or sign (whatever memoises by value must not confuse them)
        'zero_pos': [0.0, {'z': 0.0}, 0, False],
        'zero_neg': [-0.0, {'z': -0.0}, False, 0],
        'ones': [1, True, 1.0, {'k': True}],
        'ones2': [1.0, 1, True, {'k': 1}],
        'ukeys': {'caf\u00e9': 1, '\u4e2d\u6587': [1], 'na\u00efve key': {'\u00fc': '\u00e9'}, '\U0001F600': None, 'plain': 'caf\u00e9'},
    }


OPTS = {
    'none': {},
    'canonical': {'canonical': True},
    'flow': {'default_flow_style': True},
    'block': {'default_flow_style': False, 'indent': 4},
    'tags': {'tags': {'!e!': 'tag:e.example,2000:'}},
    'version': {'version': (1, 1)},
    'explicit': {'explicit_start': True, 'explicit_end': True},
    'utf16': {'encoding': 'utf-16-le'},
    'unicode': {'allow_unicode': True, 'width': 30},
    'unsorted': {'sort_keys': False},
    'dq': {'default_style': '"'},
}
SERIALIZE_OPTS = {k: v for k, v in OPTS.items() if k not in ('flow', 'block', 'unsorted', 'dq')}
EMIT_OPTS = ['none', 'canonical', 'unicode']
BAD_EVENTS = ['no_doc_end', 'no_stream_end', 'double_start', 'alias_first', 'empty']


# ---------------------------------------------------------------------------
# executing one operation

CURRENT = {'nested': None, 'ctx': None, 'hook': None}


def reent_constructor(loader, node):
    """Constructor of !reent: makes a re-entrant library call chosen by the scheduler."""
    import yaml
    nested, ctx = CURRENT['nested'], CURRENT['ctx']
    if CURRENT['hook'] is not None:
        hook, CURRENT['hook'] = CURRENT['hook'], None      # one session per call, no recursion
        try:
            hook(0)
        finally:
            CURRENT['hook'] = hook
    elif nested is not None:
        o = run_op(yaml, nested, ctx)
        ctx['nested'].append([observe.digest(nested), o])
    return 'reent'        # the outer result must not depend on the call made in here


_classes = {}


def deep_constructor(loader, node):
    return ['deep', loader.construct_mapping(node, deep=True)]


def loader_class(yaml, name):
    """Shipped class, or a harness subclass with the !reent constructor (made once per process)."""
    if name.startswith('Deep'):
        if name not in _classes:
            cls = type(name, (getattr(yaml, name[4:]),), {})
            cls.add_constructor('!deep', deep_constructor)
            _classes[name] = cls
        return _classes[name]
    if not name.startswith('Reent'):
        return getattr(yaml, name)
    if name not in _classes:
        base = getattr(yaml, name[5:])
        cls = type(name, (base,), {})
        cls.add_constructor('!reent', reent_constructor)
        _classes[name] = cls
    return _classes[name]


def scrub(s):
    return re.sub(r'0x[0-9a-fA-F]+', '0x?', s)


def exc_summary(yaml, exc):
    if exc is None:
        return None
    if isinstance(exc, yaml.YAMLError):
        d = observe.error(exc)
        if 'args' in d:
            d['args'] = [scrub(observe.jdump(a)) for a in d['args']]
        try:
            d['text'] = scrub(str(exc))[:2000]       # what the user reads (source name, snippet)
        except Exception as exc2:
            d['text'] = 'str() failed: %s' % type(exc2).__name__
        return d
    return {'class': type(exc).__name__, 'args': scrub(repr(exc.args))[:300]}


def canon(api, it):
    if api in ('scan', 'parse'):
        return observe.item(it, 0, with_encoding=True)
    if api in ('compose', 'compose_all'):
        return observe.node(it, 0)
    return observe.value(it)


def doc_text(op):
    # 'text:<literal>' = a corpus file or a seeded synthetic text carried by the operation itself (the named pool is small
    # and fixed; any deterministic text can be an operation because references are computed per operation)
    return ''.join((DOCS[d] if d in DOCS else d[5:]) + ('...\n' if op.get('terminate') else '') for d in op['docs'])


def pool_value(ctx, v):
    """A named pool value, or a value built afresh from a seeded recipe carried by the operation."""
    if isinstance(v, list):
        return values.build(v)
    return ctx['values'][v]


def seeded_text(r):
    label, text = corpus.pick_text(r, p_corpus=0.5)
    return 'text:' + text[:3000]


def bad_events(yaml, kind):
    E = yaml.events
    if kind == 'no_doc_end':
        return [E.StreamStartEvent(), E.DocumentStartEvent(), E.ScalarEvent(None, None, (True, False), 'a'),
                E.ScalarEvent(None, None, (True, False), 'b'), E.DocumentEndEvent(), E.StreamEndEvent()]
    if kind == 'no_stream_end':
        return [E.StreamStartEvent(), E.DocumentStartEvent(), E.ScalarEvent(None, None, (True, False), 'a'), E.DocumentEndEvent()]
    if kind == 'double_start':
        return [E.StreamStartEvent(), E.StreamStartEvent()]
    if kind == 'alias_first':
        return [E.StreamStartEvent(), E.DocumentStartEvent(), E.SequenceStartEvent('a1', None, True),
                E.AliasEvent('a1'), E.SequenceEndEvent(), E.DocumentEndEvent(), E.StreamEndEvent()]
    return []


def make_source(text, op, log):
    form = op.get('form', 'str')
    if form == 'str':
        return text
    if form == 'bytes':
        return text.encode('utf-8')
    data = text if form == 'tstream' else text.encode('utf-8')
    fault = None
    f = op.get('fault')
    if f and f['ch'] == 'r':
        fault = (f['at'], make_exc(f['kind']))
    chunk = op.get('chunk')
    # some streams carry the name of a file that exists (as an open file object does)
    return SimReader(data, [], chunk, fault=fault, log=log, name=os.path.join(kernel.VERIF, 'check') if op.get('named') else None)


def make_exc(kind):
    if kind == 'OSError':
        return OSError(5, 'simulated I/O error')
    if kind == 'KeyboardInterrupt':
        return KeyboardInterrupt('simulated')
    return SimError('simulated')


WRAPPERS = {'safe_load': ('load', 'SafeLoader'), 'safe_load_all': ('load_all', 'SafeLoader'), 'full_load': ('load', 'FullLoader'),
            'full_load_all': ('load_all', 'FullLoader'), 'unsafe_load': ('load', 'UnsafeLoader'),
            'safe_dump': ('dump', 'SafeDumper'), 'safe_dump_all': ('dump_all', 'SafeDumper')}


def run_op(yaml, op, ctx):
    """One complete API call.  Returns a JSON-able observation."""
    api = op['api']
    if api in WRAPPERS:
        return run_wrapper(yaml, op, ctx)
    obs = {'items': [], 'exc': None}
    log = []
    saved = (CURRENT['nested'], CURRENT['ctx'])
    try:
        if api in ('load', 'load_all', 'compose', 'compose_all', 'parse', 'scan'):
            src = make_source(doc_text(op), op, log)
            L = loader_class(yaml, op['cls'])
            if op['cls'].startswith('Reent'):
                CURRENT['nested'], CURRENT['ctx'] = op.get('nested'), ctx
            try:
                if api in ('load', 'compose'):
                    obs['items'].append(canon(api, getattr(yaml, api)(src, Loader=L)))
                else:
                    for it in getattr(yaml, api)(src, Loader=L):
                        obs['items'].append(canon(api, it))
            except kernel.Hang:
                raise
            except SimInterrupt:
                raise
            except BaseException as exc:
                obs['exc'] = exc_summary(yaml, exc)
            if log:
                obs['reads'] = len(log)
            return obs
        # output side
        D = getattr(yaml, op['cls'])
        opts = dict((SERIALIZE_OPTS if api.startswith('serialize') else OPTS)[op.get('opts', 'none')])
        if api == 'emit':
            opts = {k: v for k, v in opts.items() if k in ('canonical', 'indent', 'width', 'allow_unicode', 'line_break')}
        stream = None
        before = 0
        f = op.get('fault')
        if op.get('to') == 'shared' and not f:
            # one stream object that several calls of the history write to, one after the other (a log file kept
            # open): what THIS call appends must be what the call writes into a fresh stream
            key = (op.get('sid', 0), 'binary' if opts.get('encoding') else 'text')
            stream = ctx.setdefault('shared_streams', {}).get(key)
            if stream is None:
                stream = ctx['shared_streams'][key] = SimWriter(key[1], True)
            before = len(stream.pieces)
        elif op.get('to') in ('stream', 'shared') or (f and f['ch'] == 'w'):
            fault = (f['at'], make_exc(f['kind'])) if f and f['ch'] == 'w' else None
            stream = SimWriter('text' if not opts.get('encoding') else 'binary', True, fault=fault, log=log)
        vals = ctx['values']
        try:
            if api in ('dump', 'dump_all'):
                payload = [pool_value(ctx, v) if isinstance(v, list) else evolving_state(int(v[7:])) if v.startswith('evolve@') else vals[v]
                           for v in op.get('vals', [])]
                if op.get('evolve'):
                    payload = EvolvingDocuments(op['evolve'])
                hook = ctx.get('between_hook') if not op.get('evolve') else None
                if hook is not None:
                    ctx['between_hook'] = None             # the session belongs to this call only

                    def docs():
                        for n, d in enumerate(payload):
                            if n:
                                hook(n - 1)
                            yield d
                    src = docs()
                elif op.get('between'):
                    def docs():
                        for n, d in enumerate(payload):
                            if n:
                                o = run_op(yaml, op['between'], ctx)
                                ctx['nested'].append([observe.digest(op['between']), o])
                            yield d
                    src = docs()
                else:
                    src = payload
                if api == 'dump':
                    res = yaml.dump(payload[0], stream, Dumper=D, **opts)
                else:
                    res = yaml.dump_all(src, stream, Dumper=D, **opts)
            elif api in ('serialize', 'serialize_all'):
                # the caller keeps its node / event objects and hands the SAME objects to later calls of the history
                nodes = list(ctx.setdefault('kept_nodes', {}).setdefault(observe.digest([op['docs'], op.get('terminate')]),
                                                                        list(yaml.compose_all(doc_text(op), Loader=yaml.SafeLoader))))
                if op.get('wrap'):
                    nodes = [yaml.SequenceNode('tag:yaml.org,2002:seq', [nodes[0]])]
                if op.get('same_node'):
                    # the SAME node object as several documents, and as a child shared by two roots
                    n0 = nodes[0]
                    nodes = [n0] * op['same_node'] + [yaml.SequenceNode('tag:yaml.org,2002:seq', [n0]), yaml.SequenceNode('tag:yaml.org,2002:seq', [n0])]
                res = yaml.serialize_all(nodes, stream, Dumper=D, **opts)
            else:
                if op.get('bad'):
                    events = bad_events(yaml, op['bad'])
                else:
                    events = ctx.setdefault('kept_events', {}).setdefault(observe.digest([op['docs'], op.get('terminate')]),
                                                                          list(yaml.parse(doc_text(op), Loader=yaml.SafeLoader)))
                res = yaml.emit(events, stream, Dumper=D, **opts)
            obs['returned'] = res if not isinstance(res, bytes) else {'bytes': res.hex()}
        except kernel.Hang:
            raise
        except SimInterrupt:
            raise
        except BaseException as exc:
            obs['exc'] = exc_summary(yaml, exc)
        if stream is not None:
            if before or op.get('to') == 'shared':
                pieces = stream.pieces[before:]
                w = (b'' if stream.kind == 'binary' else '').join(pieces)
                obs['written'] = w if not isinstance(w, bytes) else {'bytes': w.hex()}
                obs['writes'] = len(pieces)
            else:
                w = stream.value()
                obs['written'] = w if not isinstance(w, bytes) else {'bytes': w.hex()}
                obs['writes'] = stream.calls
        return obs
    finally:
        CURRENT['nested'], CURRENT['ctx'] = saved


def evolving_state(k, state=None):
    """The state a documents iterable has reached when it yields for the k-th time (built fresh, or
    by mutating `state` in place)."""
    if state is None:
        state = {'step': 0, 'seen': [], 'inner': {'n': 0, 'log': []}}
        first = 0
    else:
        first = state['step'] + 1
    for i in range(first, k + 1):
        state['step'] = i
        state['seen'].append('s%d' % i)
        state['inner']['n'] = i * i
        if i % 2:
            state['inner']['log'].append({'at': i})
    return state


class EvolvingDocuments:
    """A documents iterable that yields the SAME object every time and mutates it between yields
    (the 'dump the current state after every step' pattern)."""

    def __init__(self, n):
        self.n = n

    def __iter__(self):
        state = evolving_state(0)
        yield state
        for k in range(1, self.n):
            evolving_state(k, state)
            yield state

    def __len__(self):
        return self.n


def run_wrapper(yaml, op, ctx):
    """The convenience wrappers (yaml.safe_load, yaml.safe_dump(..., **options), ...): same observation format."""
    base, _cls = WRAPPERS[op['api']]
    obs = {'items': [], 'exc': None}
    try:
        if base in ('load', 'load_all'):
            src = make_source(doc_text(op), op, [])
            res = getattr(yaml, op['api'])(src)
            if base == 'load':
                obs['items'].append(canon('load', res))
            else:
                for it in res:
                    obs['items'].append(canon('load', it))
        else:
            opts = dict(OPTS[op.get('opts', 'none')])
            payload = [pool_value(ctx, v) for v in op['vals']]
            res = yaml.safe_dump(payload[0], **opts) if base == 'dump' else yaml.safe_dump_all(payload, **opts)
            obs['returned'] = res if not isinstance(res, bytes) else {'bytes': res.hex()}
    except kernel.Hang:
        raise
    except SimInterrupt:
        raise
    except BaseException as exc:
        obs['exc'] = exc_summary(yaml, exc)
    return obs


def new_ctx():
    return {'values': make_values(), 'nested': []}


# ---------------------------------------------------------------------------
# interrupt seam: SimInterrupt raised from a trace function at the k-th line event in lib/yaml

def yaml_dir():
    import os
    import yaml
    return os.path.dirname(os.path.realpath(yaml.__file__)) + os.sep


def traced(fn, k, ydir, action=None):
    """Run fn() counting `line` events in frames of lib/yaml; raise SimInterrupt at event number k
    (k=None: only count).  With `action`, the k-th line event does not raise: the trace function runs
    action() - another complete library call, made "between two lines" of the call in progress, which
    is what a signal handler (or another thread that gets the GIL there) does - and the call carries
    on.  CPython does not trace code run from inside a trace function, so the pre-empting call is not
    counted.  Returns (lines counted, interrupted / pre-empted?, result or None)."""
    import os
    count = [0]
    cache = {}
    fired = [False]

    def local(frame, event, arg):
        if event == 'line':
            count[0] += 1
            if k is not None and count[0] == k:
                if action is None:
                    raise SimInterrupt('line event %d' % k)
                if not fired[0]:
                    fired[0] = True
                    action()
        return local

    def tracer(frame, event, arg):
        fn_ = frame.f_code.co_filename
        ok = cache.get(fn_)
        if ok is None:
            ok = cache[fn_] = os.path.realpath(fn_).startswith(ydir)
        return local if ok else None

    res, hit = None, False
    sys.settrace(tracer)
    try:
        res = fn()
    except SimInterrupt:
        hit = True
    finally:
        sys.settrace(None)
    return count[0], hit or fired[0], res


# ---------------------------------------------------------------------------
# generation

def gen_load_op(r, reent_ok=True):
    api = r.choice(['load', 'load', 'load_all', 'compose', 'compose_all', 'parse', 'scan'])
    cls = r.choice(LOADERS)
    multi = api in ('load_all', 'compose_all', 'parse', 'scan') and r.random() < 0.5
    docs = [r.choice(DOC_IDS) for _ in range(r.randint(2, 4) if multi else 1)]
    docs = [d for d in docs if d != 'reent'] or ['plain']
    if r.random() < 0.06:
        # several blocks of multi-byte text followed by another document: 'load' stops before EOF
        docs = ['bigmb'] + docs
        pass
    op = {'api': api, 'cls': cls, 'docs': docs, 'terminate': multi or len(docs) > 1, 'form': r.choice(['str', 'str', 'bytes', 'bstream', 'tstream'])}
    if r.random() < 0.25:
        op.update(docs=[seeded_text(r)], terminate=False)
    if op['form'].endswith('stream'):
        op['chunk'] = r.choice([1, 3, 7, 64, None])
        if r.random() < 0.3:
            op['named'] = True
    if reent_ok and api in ('load', 'load_all') and r.random() < 0.15 and not cls.endswith('BaseLoader'):
        op['cls'] = 'Reent' + cls
        op['docs'] = ['reent'] + (docs if multi else [])
        op['terminate'] = True
        op['nested'] = gen_op(r, reent_ok=False)
    return op


def gen_dump_op(r, reent_ok=True):
    api = r.choice(['dump', 'dump', 'dump_all', 'dump_all', 'serialize', 'serialize_all', 'emit', 'emit'])
    cls = r.choice(DUMPERS)
    op = {'api': api, 'cls': cls, 'to': r.choice(['return', 'return', 'stream', 'shared'])}
    if op['to'] == 'shared' and not reent_ok:
        op['to'] = 'stream'        # a call made while another call is in progress does not write into that call's stream
    if op['to'] == 'shared':
        op['sid'] = r.choice([0, 0, 1])
    if api in ('dump', 'dump_all'):
        names = VALUE_IDS
        n = 1 if api == 'dump' else r.randint(1, 4)
        op['vals'] = [r.choice(names) for _ in range(n)]
        op['opts'] = r.choice(sorted(OPTS))
        if op['to'] == 'shared' and r.random() < 0.4:
            op['opts'] = 'utf16'         # an encoding with a byte order mark: written once per stream? per call?
        if op['opts'] == 'unsorted':
            # the iteration order of a set depends on the hash seed: not a deterministic observation
            op['vals'] = ['plain' if v == 'set' else v for v in op['vals']]
        if r.random() < 0.25:
            # values built from a seeded recipe (shared / recursive containers, every scalar type)
            op['vals'] = [values.hash_order_free(values.Gen(r, safe=True, depth=r.choice([1, 2, 3]), width=r.choice([2, 3, 4])).value(0),
                                                 op['opts'] != 'unsorted') for _ in op['vals']]
        if reent_ok and api == 'dump_all' and n > 1 and r.random() < 0.3:
            op['between'] = gen_op(r, reent_ok=False)
    elif api.startswith('serialize'):
        op['docs'] = [r.choice(VALID_DOCS) for _ in range(1 if api == 'serialize' else r.randint(1, 3))]
        op['terminate'] = True
        op['opts'] = r.choice(sorted(SERIALIZE_OPTS))
    else:
        if r.random() < 0.25:
            op['bad'] = r.choice(BAD_EVENTS)
        else:
            op['docs'] = [r.choice(VALID_DOCS) for _ in range(r.randint(1, 3))]
            op['terminate'] = True
        op['opts'] = r.choice(EMIT_OPTS)
    return op


VALUE_IDS = ['zero_pos', 'zero_neg', 'ones', 'ones2', 'mixedkeys', 'unsorted', 'ukeys', 'plain', 'shared', 'shared_list', 'rec', 'recm', 'obj', 'obj_shared', 'strs', 'set', 'dates', 'bytes', 'tuple', 'big',
             'unrepr', 'scalar', 'none', 'nested']


def gen_op(r, reent_ok=True):
    x = r.random()
    if x < 0.08:
        api = r.choice(sorted(WRAPPERS))
        if WRAPPERS[api][0].startswith('load'):
            multi = api.endswith('_all')
            return {'api': api, 'cls': WRAPPERS[api][1], 'docs': [r.choice(DOC_IDS) for _ in range(r.randint(2, 3) if multi else 1)],
                    'terminate': multi, 'form': r.choice(['str', 'bytes', 'bstream'])}
        opts = r.choice(sorted(OPTS))
        return {'api': api, 'cls': 'SafeDumper', 'opts': opts,
                'vals': [r.choice([v for v in VALUE_IDS if not (v == 'set' and opts == 'unsorted')]) for _ in range(1 if api == 'safe_dump' else r.randint(1, 3))]}
    return gen_load_op(r, reent_ok) if x < 0.58 else gen_dump_op(r, reent_ok)


RELATED_VALUES = [['zero_pos', 'zero_neg', 'ones', 'ones2'], ['mixedkeys', 'unsorted', 'plain', 'nested'], ['shared', 'shared_list', 'rec', 'recm', 'obj_shared'],
                  ['ukeys', 'strs', 'scalar'], ['dates', 'set', 'tuple', 'bytes']]


def related_values(r, n, unsorted=False):
    g = [v for v in r.choice(RELATED_VALUES) if not (v == 'set' and unsorted)]
    return [r.choice(g) for _ in range(n)]


def twin_op(r, op):
    """A call closely related to the one before it: the same events / nodes emitted under other options or by another
    dumper class; an ==-equal value (1 / True / 1.0, 0.0 / -0.0) dumped by the same dumper.  None: no twin."""
    if r.random() >= 0.3 or op.get('fault') or op.get('between') or op.get('nested'):
        return None
    api = op['api']
    if api == 'emit' and not op.get('bad'):
        return dict(op, opts=r.choice([o for o in EMIT_OPTS if o != op.get('opts')] or EMIT_OPTS), cls=r.choice([op['cls'], r.choice(DUMPERS)]), to='return')
    if api in ('serialize', 'serialize_all'):
        return dict(op, opts=r.choice(sorted(SERIALIZE_OPTS)), cls=r.choice([op['cls'], r.choice(DUMPERS)]), to='return')
    if api in ('dump', 'dump_all') and op.get('vals') and not op.get('evolve'):
        vals = []
        for v in op['vals']:
            if isinstance(v, list):
                vals.append(equal_variant(r, v))
            else:
                vals.append({'zero_pos': 'zero_neg', 'zero_neg': 'zero_pos', 'ones': 'ones2', 'ones2': 'ones'}.get(v, v))
        return dict(op, vals=vals, to='return')
    return None


def equal_variant(r, rc):
    """The recipe with some numbers replaced by ==-equal ones of another type or sign."""
    t = rc[0]
    if t in ('int', 'bool', 'float'):
        try:
            v = values.build(rc)
            if v == 1:
                return r.choice([['int', 1], ['bool', True], ['float', '1.0']])
            if v == 0:
                return r.choice([['int', 0], ['bool', False], ['float', '0.0'], ['float', '-0.0']])
        except (ValueError, OverflowError):
            pass
        return rc
    if t in ('list', 'tuple'):
        return [t, [equal_variant(r, x) for x in rc[1]], rc[2]]
    if t == 'dict':
        return [t, [[k, equal_variant(r, x)] for k, x in rc[1]], rc[2]]
    return rc


def gen_gen_op(r):
    api = r.choice(GEN_APIS)
    docs = [r.choice([d for d in DOC_IDS if d != 'reent']) for _ in range(r.randint(2, 5))]
    if r.random() < 0.4:
        docs = related_docs(r, r.randint(2, 5))
    if r.random() < 0.15:
        docs.insert(r.randrange(2), 'bigmb')
    if r.random() < 0.2:
        # multi-byte text through a binary stream in pieces that split sequences
        return {'api': api, 'cls': r.choice(LOADERS), 'docs': [r.choice(['cyrillic', 'cjk', 'unicode']) for _ in range(r.randint(2, 4))],
                'terminate': True, 'form': 'bstream', 'chunk': r.choice([2, 3, 5, 7, 16])}
    if r.random() < 0.2:
        return {'api': api, 'cls': r.choice(LOADERS), 'docs': [seeded_text(r)], 'terminate': False, 'form': r.choice(['bstream', 'tstream']),
                'chunk': r.choice([1, 2, 5, 16, 64, None])}
    return {'api': api, 'cls': r.choice(LOADERS), 'docs': docs, 'terminate': True, 'form': r.choice(['bstream', 'tstream']),
            'chunk': r.choice([1, 2, 5, 16, 64, None])}


def generate(seed, tier):
    r = kernel.rng(seed, 'case')
    x = r.random()
    if x < 0.15:
        docs = [r.choice([d for d in DOC_IDS if d != 'reent']) for _ in range(r.randint(2, 6))]
        if r.random() < 0.5:
            docs = related_docs(r, r.randint(2, 5))
        elif r.random() < 0.25:
            # the same document several times in one stream (what a log or a stream of records looks like)
            docs = [r.choice([d for d in VALID_DOCS if d != 'bigmb'])] * r.randint(2, 5) + docs[:1]
            r.shuffle(docs)
        if r.random() < 0.1:
            # a LONG stream of records (what a log looks like): a short pattern of small documents repeated 30-150 times;
            # anything that is counted, budgeted, cached or recycled across documents needs length to show
            pat = [r.choice(['many_aliases', 'many_aliases', 'anchor', 'merge', 'tag_e', 'map', 'rec_seq', 'types', 'keys', 'plain']) for _ in range(r.randint(1, 3))]
            pat = [d for d in pat if d in VALID_DOCS] or ['anchor']
            docs = (pat * 150)[:r.choice([30, 60, 100, 150])]
        return {'mode': 'stream_load', 'docs': docs, 'api': r.choice(GEN_APIS), 'cls': r.choice(LOADERS),
                'form': r.choice(['str', 'bytes', 'bstream', 'tstream']), 'chunk': r.choice([1, 3, 16, 100, None])}
    if x < 0.19:
        # one Loader object driven document by document (check_data / get_data), the caller carrying on after a
        # document that failed in the constructor: the documents after it are interpreted as if it had not been there
        group = ['e_deep', 'e_deep', 'deep_ok', 'rec_seq', 'rec_map', 'e_unknown_tag', 'anchor', 'e_apply_deep', 'e_unhashable', 'many_aliases', 'merge',
                 'e_apply', 'pyobj', 'pytuple', 'types', 'tag_e', 'bang', 'map', 'e_scan_mapval', 'alias_undef_x', 'keys']
        docs = [r.choice(group) for _ in range(r.randint(2, 6))]
        if r.random() < 0.3:
            docs = [r.choice([d for d in DOC_IDS if d != 'reent']) for _ in range(r.randint(2, 5))]
        cls = r.choice(LOADERS)
        if not cls.endswith('BaseLoader') and r.random() < 0.6:
            cls = 'Deep' + cls
        return {'mode': 'stream_object', 'docs': docs, 'cls': cls, 'form': r.choice(['str', 'bytes', 'bstream', 'tstream']), 'chunk': r.choice([1, 3, 16, 100, None])}
    if x < 0.25:
        via = r.choice(['emit', 'emit', 'serialize_all', 'serialize_all'])
        case = {'mode': 'stream_emit', 'via': via, 'cls': r.choice(DUMPERS),
                'docs': related_docs(r, r.randint(2, 5), valid_only=True) if r.random() < 0.6 else [r.choice(VALID_DOCS) for _ in range(r.randint(2, 5))],
                'opts': r.choice(EMIT_OPTS if via == 'emit' else sorted(SERIALIZE_OPTS))}
        if via == 'serialize_all' and r.random() < 0.5:
            case['same_node'] = r.randint(2, 3)
            case['docs'] = case['docs'][:1]
        return case
    if x < 0.28:
        return {'mode': 'stream_dump', 'evolve': r.randint(2, 5), 'vals': [], 'cls': r.choice(DUMPERS[:4]),
                'opts': r.choice(['none', 'canonical', 'flow', 'explicit', 'unsorted', 'dq'])}
    if x < 0.35:
        n = r.randint(2, 5)
        opts = r.choice(['none', 'canonical', 'flow', 'tags', 'version', 'explicit', 'unicode', 'unsorted', 'dq'])
        vals = [r.choice([v for v in VALUE_IDS if not (v == 'set' and opts == 'unsorted')]) for _ in range(n)]
        if r.random() < 0.5:
            vals = related_values(r, n, opts == 'unsorted')
        if r.random() < 0.1:
            vals = (vals * 150)[:r.choice([30, 60, 100, 150])]       # a long stream of records
        return {'mode': 'stream_dump', 'vals': vals, 'cls': r.choice(DUMPERS[:4]), 'opts': opts}
    # swarm: per-run subset of step kinds
    kinds = {'call': 5, 'fault': r.choice([0, 1, 2]), 'interrupt': r.choice([0, 1, 2]), 'gen': r.choice([0, 2, 4]),
             'session': r.choice([0, 0, 1, 2]), 'preempt': r.choice([0, 0, 1, 3])}
    bag = [k for k, w in kinds.items() for _ in range(w)]
    steps = []
    live = []
    state = {'ntask': 0}

    def gen_step():
        y = r.random()
        if not live or (y < 0.25 and len(live) < 3):
            op = gen_gen_op(r)
            if live and state.get('last_gen') and r.random() < 0.5:
                # two similar inputs side by side (comparing two files): same kind of documents, same delivery
                prev = state['last_gen']
                op = dict(op, docs=list(prev['docs']), form=prev['form'], chunk=prev['chunk'], api=r.choice([prev['api'], op['api']]))
                r.shuffle(op['docs'])
            state['last_gen'] = op
            st = {'t': 'start', 'task': state['ntask'], 'op': op}
            live.append(state['ntask'])
            state['ntask'] += 1
            if r.random() < 0.75:
                # a generator that is never advanced has not even built its loader: step the new task at once
                return [st, {'t': 'next', 'task': st['task'], 'count': r.choice([1, 2, 3, 5])}]
            return st
        if y < 0.85:
            st = {'t': 'next', 'task': r.choice(live), 'count': r.choice([1, 1, 2, 3, 8])}
            if kinds['interrupt'] and r.random() < 0.15:
                st['interrupt_at'] = r.choice([1, 2, 3, 5, 8, 13, 21, 34, 55, 89, 144, 233, 400, 700])
            return st
        t = r.choice(live)
        live.remove(t)
        return {'t': r.choice(['close', 'throw', 'drop']), 'task': t}

    def inner_group():
        g = []
        for _ in range(r.choice([0, 1, 1, 2, 3])):
            x = {'t': 'call', 'op': gen_op(r, reent_ok=False)} if r.random() < 0.5 else gen_step()
            g.extend(x if isinstance(x, list) else [x])
        return g

    for _ in range(r.randint(6, 30) if tier == 'quick' else r.randint(6, 50)):
        k = r.choice(bag)
        if k == 'session':
            if r.random() < 0.6:
                n = r.randint(2, 4)
                opts = r.choice(sorted(OPTS))
                op = {'api': 'dump_all', 'cls': r.choice(DUMPERS), 'to': r.choice(['return', 'return', 'stream']), 'opts': opts,
                      'vals': [r.choice([v for v in VALUE_IDS if not (v == 'set' and opts == 'unsorted')]) for _ in range(n)]}
                steps.append({'t': 'dump_session', 'op': op, 'inner': [inner_group() for _ in range(n - 1)]})
            else:
                cls = r.choice([c for c in LOADERS if not c.endswith('BaseLoader')])
                op = {'api': r.choice(['load', 'load_all']), 'cls': 'Reent' + cls, 'docs': ['reent'], 'terminate': True,
                      'form': r.choice(['str', 'bytes', 'bstream']), 'chunk': r.choice([1, 7, None])}
                first = gen_step()
                steps.append({'t': 'load_session', 'op': op, 'inner': [inner_group() or (first if isinstance(first, list) else [first])]})
            continue
        if k == 'call':
            op = gen_op(r)
            steps.append({'t': 'call', 'op': op})
            tw = twin_op(r, op)
            if tw is not None:
                steps.append({'t': 'call', 'op': tw})
        elif k == 'fault':
            op = gen_op(r, reent_ok=False)
            if op['api'] in ('load', 'load_all', 'compose', 'compose_all', 'parse', 'scan'):
                op['form'] = r.choice(['bstream', 'tstream'])
                op['chunk'] = r.choice([1, 3, 7, 64])
                op['fault'] = {'ch': 'r', 'at': r.choice([0, 1, 2, 3, 5, 10, 30]), 'kind': r.choice(['OSError', 'SimError', 'KeyboardInterrupt'])}
            else:
                op['to'] = 'stream'
                op['fault'] = {'ch': 'w', 'at': r.choice([0, 1, 2, 3, 5, 10, 30, 100]), 'kind': r.choice(['OSError', 'SimError', 'KeyboardInterrupt'])}
            steps.append({'t': 'call', 'op': op})
        elif k == 'interrupt':
            steps.append({'t': 'interrupt', 'op': gen_op(r, reent_ok=r.random() < 0.3), 'at': r.random()})
        elif k == 'preempt':
            # another complete call made between two lines of a call in progress (signal handler / other thread);
            # half of the time the two calls are of the same kind (twin), which is where shared scratch state bites
            op = gen_op(r, reent_ok=False)
            inner = twin_op(r, op) if r.random() < 0.5 else None
            if inner is None:
                inner = gen_op(r, reent_ok=False)
            if r.random() < 0.25:
                inner = dict(op)
            st = {'t': 'preempt', 'op': op, 'inner_op': inner, 'at': r.random()}
            if r.random() < 0.35:
                # ... or the other party advances its own in-flight calls a little (start / next / close of generator
                # tasks, complete calls): several calls in progress, interleaved at line granularity
                g = inner_group()
                if g:
                    st['inner_steps'] = g
            steps.append(st)
        else:
            x = gen_step()
            steps.extend(x if isinstance(x, list) else [x])
    return {'mode': 'history', 'steps': steps}


def describe(case):
    if case['mode'] == 'history':
        return {'mode': 'history', 'steps': len(case['steps']), 'head': case['steps'][:8]}
    return case


# ---------------------------------------------------------------------------
# references (isolated executions in pristine forks), cached per worker process

_refs = {}


def reference(op, drain=False):
    """Observation of `op` executed as the only call of a pristine process."""
    key = observe.digest([op, drain])
    if key not in _refs:
        def work():
            import yaml
            ctx = new_ctx()
            o = run_op(yaml, op, ctx)
            return [o, ctx['nested']]
        status, res = kernel.forked(work, timeout=60)
        if status != 'ok':
            raise RuntimeError('reference execution failed: %s %s' % (status, res))
        if len(_refs) > 50000:
            _refs.clear()
        _refs[key] = res
    return _refs[key]


# ---------------------------------------------------------------------------
# history mode

def run_history(case):
    """Executed in a forked child.  Returns the list of per-step records."""
    import yaml
    ydir = yaml_dir()
    ctx = new_ctx()
    records = []
    gs0 = observe.global_state()
    tasks = {}
    stop = []

    def exec_step(st, path, depth):
        t = st['t']
        rec = {'step': path, 't': t, 'depth': depth}
        outer_nested = ctx['nested']
        ctx['nested'] = []
        if t == 'call':
            rec['op'] = st['op']
            rec['obs'] = run_op(yaml, st['op'], ctx)
        elif t == 'interrupt':
            # a traced complete call (counts the lines), then the same call interrupted at line k
            rec['op'] = st['op']
            lines, _, obs = traced(lambda: run_op(yaml, st['op'], ctx), None, ydir)
            rec['obs'] = obs
            rec['lines'] = lines
            nested_first = ctx['nested']
            ctx['nested'] = []
            if lines:
                k = 1 + int(st['at'] * lines) % lines
                _, hit, _ = traced(lambda: run_op(yaml, st['op'], ctx), k, ydir)
                rec['interrupted_at'] = k if hit else None
            ctx['nested'] = nested_first
        elif t == 'preempt':
            # a traced complete call (counts the lines), then the same call with another complete call made
            # from the trace function at line k; both executions of the outer call are compared
            rec['op'] = st['op']
            lines, _, obs = traced(lambda: run_op(yaml, st['op'], ctx), None, ydir)
            rec['obs'] = obs
            rec['lines'] = lines
            if lines:
                k = 1 + int(st['at'] * lines) % lines
                got = []

                def action():
                    saved_nested = ctx['nested']
                    ctx['nested'] = []
                    try:
                        for m, ist in enumerate(st.get('inner_steps') or []):
                            if not stop:
                                exec_step(ist, path + [0, m], depth + 1)
                        got.append(run_op(yaml, st['inner_op'], ctx))
                    finally:
                        ctx['nested'] = saved_nested
                _, hit, obs2 = traced(lambda: run_op(yaml, st['op'], ctx), k, ydir, action)
                if hit and got:
                    rec['preempted_at'] = k
                    rec['obs_pre'] = obs2
                    rec['inner_op'] = st['inner_op']
                    rec['inner_obs'] = got[0]
        elif t in ('dump_session', 'load_session'):
            # a call in progress while other steps of the history run: between the documents of a
            # dump_all (documents iterable) or inside a constructor (re-entrant)
            rec['op'] = st['op']
            inner = st['inner']

            def hook(n):
                group = inner[n] if n < len(inner) else []
                for m, ist in enumerate(group):
                    if stop:
                        return
                    exec_step(ist, path + [n, m], depth + 1)
            saved = (ctx.get('between_hook'), CURRENT['hook'])
            if t == 'dump_session':
                ctx['between_hook'] = hook
            else:
                CURRENT['hook'] = hook
            try:
                rec['obs'] = run_op(yaml, st['op'], ctx)
            finally:
                ctx['between_hook'], CURRENT['hook'] = saved
        elif t == 'start':
            op = st['op']
            src = make_source(doc_text(op), op, [])
            gen = getattr(yaml, op['api'])(src, Loader=loader_class(yaml, op['cls']))
            tasks[st['task']] = {'gen': gen, 'op': op, 'items': [], 'end': None}
            rec['task'] = st['task']
        elif t == 'next':
            task = tasks.get(st['task'])
            rec['task'] = st['task']
            if task is not None and task['end'] is None and task['gen'] is not None and not task.get('running'):
                task['running'] = True          # a generator cannot be re-entered from inside itself
                try:
                    for _ in range(st['count']):
                        k = st.get('interrupt_at')
                        try:
                            if k:
                                _, hit, it = traced(lambda: [next(task['gen'])], k, ydir)
                                if hit:
                                    task['end'] = {'interrupted': True}
                                    rec['interrupted_at'] = k
                                    break
                                it = it[0]
                            else:
                                it = next(task['gen'])
                            task['items'].append(canon(task['op']['api'], it))
                        except StopIteration:
                            task['end'] = {'stop': True}
                            break
                        except kernel.Hang:
                            raise
                        except BaseException as exc:
                            task['end'] = {'exc': exc_summary(yaml, exc)}
                            break
                finally:
                    task['running'] = False
                rec['got'] = len(task['items'])
        elif t in ('close', 'throw', 'drop'):
            task = tasks.get(st['task'])
            rec['task'] = st['task']
            if task is not None and task['gen'] is not None and not task.get('running'):
                g = task['gen']
                task['gen'] = None
                if t == 'close':
                    g.close()
                elif t == 'throw':
                    try:
                        g.throw(SimError('thrown into the generator'))
                        rec['throw'] = 'swallowed'
                    except SimError:
                        rec['throw'] = 'propagated'
                    except StopIteration:
                        rec['throw'] = 'stop'
                    except BaseException as exc:
                        rec['throw'] = type(exc).__name__
                del g
        rec['nested'] = ctx['nested']
        ctx['nested'] = outer_nested
        if depth == 0:
            gs = observe.global_state()
            if gs != gs0:
                rec['state_changed'] = observe.state_diff(gs0, gs)[:20]
                stop.append(True)
        records.append(rec)

    for n, st in enumerate(case['steps']):
        if stop:
            break
        exec_step(st, [n], 0)
    final = {}
    for tid, task in tasks.items():
        final[tid] = {'op': task['op'], 'items': task['items'], 'end': task['end']}
        if task['gen'] is not None:
            task['gen'].close()
    gs = observe.global_state()
    return {'records': records, 'tasks': final, 'final_state_changed': observe.state_diff(gs0, gs)[:20] if gs != gs0 else None}


def first_diff(a, b):
    for i, (x, y) in enumerate(zip(a, b)):
        if x != y:
            return i
    return min(len(a), len(b)) if len(a) != len(b) else None


def obs_diff(want, got):
    d = {}
    for k in sorted(set(want) | set(got)):
        if want.get(k) != got.get(k):
            if k == 'items':
                i = first_diff(want['items'], got['items'])
                d['items'] = {'first_difference_at': i, 'reference': clip(want['items'][i] if i is not None and i < len(want['items']) else None),
                              'observed': clip(got['items'][i] if i is not None and i < len(got['items']) else None)}
            else:
                d[k] = {'reference': clip(want.get(k)), 'observed': clip(got.get(k))}
    return d


def clip(x):
    s = observe.jdump(x)
    return x if len(s) <= 500 else s[:500] + '...'


def needs_c(op):
    return op.get('cls', '').replace('Reent', '').replace('Deep', '').startswith('C')


def case_ops(case):
    if case['mode'] == 'history':
        stack = list(case['steps'])
        while stack:
            st = stack.pop()
            for g in st.get('inner') or []:
                stack.extend(g)
            stack.extend(st.get('inner_steps') or [])
            if st.get('inner_op'):
                yield st['inner_op']
            if 'op' in st:
                yield st['op']
                for k in ('nested', 'between'):
                    if st['op'].get(k):
                        yield st['op'][k]
    else:
        yield case


def execute(case):
    import yaml
    out = {'violations': [], 'evals': 0, 'probes': {}, 'faults': {}, 'sigs': [], 'extra': {}}
    if not getattr(yaml, '__with_libyaml__', False) and any(needs_c(o) for o in case_ops(case)):
        out['extra']['c_backend_not_run'] = 1
        out['log'] = 'no-c'
        return out
    if case['mode'] == 'stream_load':
        return execute_stream_load(yaml, case, out)
    if case['mode'] == 'stream_dump':
        return execute_stream_dump(yaml, case, out)
    if case['mode'] == 'stream_object':
        return execute_stream_object(yaml, case, out)
    if case['mode'] == 'stream_emit':
        return execute_stream_emit(yaml, case, out)
    status, res = kernel.forked(lambda: run_history(case), timeout=CASE_TIMEOUT - 30)
    if status == 'error':
        raise RuntimeError('history worker failed:\n%s' % res)
    if status != 'ok':
        out['violations'].append({'class': status, 'detail': 'forked history worker: %s %r' % (status, res)})
        out['log'] = status
        return out
    prev = None
    logparts = []
    for ri, rec in enumerate(res['records']):
        out['evals'] += 1
        where = {'step': rec['step'], 't': rec['t']}
        out['probes']['step:' + rec['t']] = out['probes'].get('step:' + rec['t'], 0) + 1
        if rec.get('state_changed'):
            out['violations'].append({'class': 'global-state-changed', 'detail': dict(where, op=rec.get('op'), changed=rec['state_changed'])})
            break
        if 'obs' in rec:
            op = rec['op']
            # the outer call is compared with itself *without* the re-entrant call: a call made from
            # inside a constructor / a documents iterable is one more call that must not be visible
            want, _ = reference({k: v for k, v in op.items() if k not in ('nested', 'between')})
            od = observe.digest(op)
            if prev is not None:
                out['sigs'].append(observe.digest([od, prev]))
            prev = od
            f = op.get('fault')
            if f:
                fired = (rec['obs'].get('exc') or {}).get('class') in ('OSError', 'SimError', 'KeyboardInterrupt', 'checks.c11.SimError')
                if fired:
                    out['faults']['stream-exception:' + f['ch']] = out['faults'].get('stream-exception:' + f['ch'], 0) + 1
            if rec['obs'] != want:
                out['violations'].append({'class': 'result-differs-from-isolated-call', 'detail': dict(
                    where, op=op, diff=obs_diff(want, rec['obs']), preceding=[r.get('op') for r in res['records'][max(0, ri - 3):ri]])})
                break
            for nd, nobs in rec['nested']:
                nop = op.get('nested') or op.get('between')
                nwant, _ = reference(nop)
                out['probes']['reentrant_calls'] = out['probes'].get('reentrant_calls', 0) + 1
                if nobs != nwant:
                    out['violations'].append({'class': 'reentrant-call-differs-from-isolated-call', 'detail': dict(
                        where, outer=op, nested=nop, diff=obs_diff(nwant, nobs))})
                    break
            if out['violations']:
                break
            if rec['t'] == 'preempt':
                if rec.get('preempted_at'):
                    out['faults']['line-preemption-by-another-call'] = out['faults'].get('line-preemption-by-another-call', 0) + 1
                    out['evals'] += 2
                    if rec['obs_pre'] != want:
                        out['violations'].append({'class': 'preempted-call-differs-from-isolated-call', 'detail': dict(
                            where, op=op, inner_op=rec['inner_op'], at_line=rec['preempted_at'], of_lines=rec.get('lines'),
                            diff=obs_diff(want, rec['obs_pre']))})
                        break
                    iwant, _ = reference(rec['inner_op'])
                    if rec['inner_obs'] != iwant:
                        out['violations'].append({'class': 'preempting-call-differs-from-isolated-call', 'detail': dict(
                            where, op=op, inner_op=rec['inner_op'], at_line=rec['preempted_at'], of_lines=rec.get('lines'),
                            diff=obs_diff(iwant, rec['inner_obs']))})
                        break
                else:
                    out['extra']['preemption_not_fired'] = out['extra'].get('preemption_not_fired', 0) + 1
            if rec['t'] == 'interrupt':
                if rec.get('interrupted_at'):
                    out['faults']['line-interrupt'] = out['faults'].get('line-interrupt', 0) + 1
                else:
                    out['extra']['interrupt_not_fired'] = out['extra'].get('interrupt_not_fired', 0) + 1
            logparts.append([rec['step'], observe.digest(rec['obs']), rec.get('lines'), rec.get('interrupted_at'), rec.get('preempted_at'),
                             observe.digest(rec.get('inner_obs'))])
        else:
            logparts.append([rec['step'], rec['t'], rec.get('task'), rec.get('got'), rec.get('throw'), rec.get('interrupted_at')])
            if rec.get('throw') not in (None, 'propagated'):
                out['violations'].append({'class': 'exception-thrown-into-generator-not-propagated', 'detail': dict(where, got=rec['throw'])})
                break
    if not out['violations'] and res.get('final_state_changed'):
        out['violations'].append({'class': 'global-state-changed', 'detail': {'step': 'end', 'changed': res['final_state_changed']}})
    # generator tasks: items obtained in the interleaving are a prefix of the isolated drain
    if not out['violations']:
        sig = [[r['t'], r.get('task'), r.get('depth')] for r in res['records'] if r['t'] in ('start', 'next', 'close', 'throw', 'drop')]
        nsess = sum(1 for r in res['records'] if r['t'].endswith('_session'))
        if nsess:
            out['probes']['sessions_with_steps_inside_a_call'] = nsess
            out['probes']['steps_executed_inside_a_call'] = sum(1 for r in res['records'] if r.get('depth'))
        if len(res['tasks']) > 1 or nsess:
            out['sigs'].append(observe.digest(sig))
            out['probes']['histories_with_interleaved_generators'] = 1
        for tid, task in sorted(res['tasks'].items()):
            want, _ = reference(task['op'])
            out['evals'] += 1
            n = len(task['items'])
            if task['items'] != want['items'][:n]:
                out['violations'].append({'class': 'generator-items-differ-from-isolated-call', 'detail': {
                    'task': tid, 'op': task['op'], 'first_difference_at': first_diff(want['items'], task['items'])}})
                break
            if task['end'] is not None and task['end'].get('interrupted'):
                out['faults']['line-interrupt-in-generator-step'] = out['faults'].get('line-interrupt-in-generator-step', 0) + 1
            elif task['end'] is not None:
                wend = {'exc': want['exc']} if want['exc'] else {'stop': True}
                if task['end'] != wend or n != len(want['items']):
                    out['violations'].append({'class': 'generator-end-differs-from-isolated-call', 'detail': {
                        'task': tid, 'op': task['op'], 'reference': clip(wend), 'observed': clip(task['end']), 'items': [n, len(want['items'])]}})
                    break
            logparts.append([tid, n, observe.digest(task['items'])])
    out['log'] = observe.digest(logparts)
    out['sample'] = describe(case)
    return out


# ---------------------------------------------------------------------------
# stream clause

def shift_mark(m, dl, di):
    return None if m is None else [m[0] + dl, m[1], m[2] + di]


def shift_item(api, it, dl, di):
    if api in ('scan', 'parse'):
        return [it[0], it[1], shift_mark(it[2], dl, di), shift_mark(it[3], dl, di)]
    if api == 'compose_all':
        return shift_node(it, dl, di)
    return it


def shift_node(n, dl, di):
    if n is None or isinstance(n, dict):
        return n
    head = [n[0], n[1], shift_mark(n[2], dl, di), shift_mark(n[3], dl, di)]
    if n[0] == 'ScalarNode':
        return head + n[4:]
    if n[0] == 'SequenceNode':
        return head + [[shift_node(c, dl, di) for c in n[4]], n[5]]
    if n[0] == 'MappingNode':
        return head + [[[shift_node(k, dl, di), shift_node(v, dl, di)] for k, v in n[4]], n[5]]
    return n


def shift_error(e, dl, di):
    if e is None:
        return None
    e = {k: v for k, v in e.items() if k != 'text'}      # the message names the source and quotes absolute positions
    for k in ('context_mark', 'problem_mark'):
        if e.get(k) is not None:
            e[k] = shift_mark(e[k], dl, di)
    return e


def execute_stream_load(yaml, case, out):
    api = case['api']
    base = {'api': api, 'cls': case['cls'], 'terminate': True, 'form': case['form'], 'chunk': case.get('chunk')}
    expected, exp_err = [], None
    dl = di = 0
    prevdoc = None
    for d in case['docs']:
        want, _ = reference(dict(base, docs=[d], form='str', chunk=None))
        items = want['items']
        if api in ('scan', 'parse'):
            items = [it for it in items if it[0] not in ('StreamStartToken', 'StreamEndToken', 'StreamStartEvent', 'StreamEndEvent')]
        expected += [shift_item(api, it, dl, di) for it in items]
        out['sigs'].append(observe.digest([d, prevdoc, api, case['cls']]))
        prevdoc = d
        if want['exc'] is not None:
            exp_err = shift_error(want['exc'], dl, di)
            break
        text = DOCS[d] + '...\n'
        dl += text.count('\n')
        di += len(text)
    status, res = kernel.forked(lambda: run_op(yaml, dict(base, docs=case['docs']), new_ctx()), timeout=60)
    if status != 'ok':
        if status == 'error':
            raise RuntimeError(res)
        out['violations'].append({'class': status, 'detail': repr(res)})
        out['log'] = status
        return out
    got = res['items']
    if api in ('scan', 'parse'):
        got = [it for it in got if it[0] not in ('StreamStartToken', 'StreamEndToken', 'StreamStartEvent', 'StreamEndEvent')]
    out['evals'] += len(case['docs'])
    out['probes']['stream_load_documents'] = len(case['docs'])
    if got != expected:
        i = first_diff(expected, got)
        out['violations'].append({'class': 'stream-differs-from-isolated-documents', 'detail': {
            'case': case, 'first_difference_at': i, 'isolated': clip(expected[i] if i is not None and i < len(expected) else None),
            'in_stream': clip(got[i] if i is not None and i < len(got) else None), 'stream_error': clip(res['exc'])}})
    elif shift_error(res['exc'], 0, 0) != exp_err:
        out['violations'].append({'class': 'stream-error-differs-from-isolated-document', 'detail': {
            'case': case, 'isolated': clip(exp_err), 'in_stream': clip(res['exc'])}})
    out['log'] = observe.digest([got, res['exc']])
    out['sample'] = case
    return out


def run_object_stream(yaml, case):
    """Loader(stream); while check_data(): get_data() - carrying on after a ConstructorError."""
    op = {'docs': case['docs'], 'terminate': True, 'form': case['form'], 'chunk': case.get('chunk')}
    src = make_source(doc_text(op), op, [])
    loader = loader_class(yaml, case['cls'])(src)
    results = []
    try:
        while len(results) < 100:
            try:
                if not loader.check_data():
                    break
                results.append({'item': canon('load', loader.get_data())})
            except yaml.constructor.ConstructorError as exc:
                results.append({'exc': exc_summary(yaml, exc)})
            except yaml.YAMLError as exc:
                results.append({'exc': exc_summary(yaml, exc), 'fatal': True})
                break
    finally:
        loader.dispose()
    return results


def execute_stream_object(yaml, case, out):
    base = {'api': 'load', 'cls': case['cls'], 'terminate': True, 'form': 'str', 'chunk': None}
    expected = []
    dl = di = 0
    prevdoc = None
    for d in case['docs']:
        want, _ = reference(dict(base, docs=[d]))
        out['sigs'].append(observe.digest([d, prevdoc, 'object-api', case['cls']]))
        prevdoc = d
        if want['exc'] is not None:
            fatal = want['exc'].get('class') != 'yaml.constructor.ConstructorError'
            expected.append(dict({'exc': shift_error(want['exc'], dl, di)}, **({'fatal': True} if fatal else {})))
            if fatal:
                break
        else:
            expected.append({'item': want['items'][0]})
        text = DOCS[d] + '...\n'
        dl += text.count('\n')
        di += len(text)
    status, res = kernel.forked(lambda: run_object_stream(yaml, case), timeout=60)
    if status != 'ok':
        if status == 'error':
            raise RuntimeError(res)
        out['violations'].append({'class': status, 'detail': repr(res)})
        out['log'] = status
        return out
    got = [dict(x, exc=shift_error(x['exc'], 0, 0)) if 'exc' in x else x for x in res]
    out['evals'] += len(case['docs'])
    out['probes']['object_api_documents'] = len(got)
    out['probes']['object_api_documents_after_a_failed_one'] = sum(1 for i, x in enumerate(got) if any('exc' in y for y in got[:i]))
    if got != expected:
        i = first_diff(expected, got)
        out['violations'].append({'class': 'document-differs-after-failed-document' if any('exc' in y for y in got[:i or 0]) else 'object-api-stream-differs-from-isolated-documents',
                                  'detail': {'case': case, 'document': i, 'isolated': clip(expected[i] if i is not None and i < len(expected) else None),
                                             'in_stream': clip(got[i] if i is not None and i < len(got) else None)}})
    out['log'] = observe.digest(got)
    out['sample'] = case
    return out


def doc_events(yaml, text):
    """Events of a dumped text grouped per document, without marks and explicit flags."""
    if isinstance(text, dict):
        text = bytes.fromhex(text['bytes'])
    docs, cur = [], None
    for ev in yaml.parse(text, Loader=yaml.SafeLoader):
        name = type(ev).__name__
        if name in ('StreamStartEvent', 'StreamEndEvent'):
            continue
        d = {k: v for k, v in vars(ev).items() if k not in ('start_mark', 'end_mark', 'explicit')}
        if name == 'DocumentStartEvent':
            cur = []
            docs.append(cur)
        cur.append([name, observe._plain(d)])
    return docs


def execute_stream_dump(yaml, case, out):
    opts = case['opts']
    base = {'api': 'dump_all', 'cls': case['cls'], 'opts': opts, 'to': 'return'}
    expected = []
    err_at = None
    vals = case['vals'] if not case.get('evolve') else ['evolve@%d' % k for k in range(case['evolve'])]
    for n, v in enumerate(vals):
        want, _ = reference(dict(base, vals=[v]))
        if want['exc'] is not None:
            err_at = n
            break
        expected.append(doc_events(yaml, want['returned'])[0])
        out['sigs'].append(observe.digest([v, vals[n - 1] if n else None, case['cls'], opts]))

    def work():
        ctx = new_ctx()
        if case.get('evolve'):
            return run_op(yaml, dict(base, evolve=case['evolve'], to='stream'), ctx)
        return run_op(yaml, dict(base, vals=case['vals'], to='stream'), ctx)
    status, res = kernel.forked(work, timeout=60)
    if status != 'ok':
        if status == 'error':
            raise RuntimeError(res)
        out['violations'].append({'class': status, 'detail': repr(res)})
        out['log'] = status
        return out
    out['evals'] += len(vals)
    out['probes']['stream_dump_documents'] = len(vals)
    if case.get('evolve'):
        out['probes']['stream_dump_evolving_documents'] = len(vals)
    text = res.get('written')
    try:
        got = doc_events(yaml, text)
    except yaml.YAMLError as exc:
        # a failed dump_all leaves a truncated stream: keep the complete documents only
        got = None
        if err_at is None:
            out['violations'].append({'class': 'dumped-stream-not-parsable', 'detail': {'case': case, 'error': exc_summary(yaml, exc), 'text': clip(text)}})
    if got is not None and not out['violations']:
        if err_at is not None:
            got = got[:err_at]
        if got != expected:
            i = first_diff(expected, got)
            out['violations'].append({'class': 'dumped-document-differs-from-isolated-dump', 'detail': {
                'case': case, 'document': i, 'isolated': clip(expected[i] if i is not None and i < len(expected) else None),
                'in_stream': clip(got[i] if i is not None and i < len(got) else None)}})
        if (res['exc'] is None) != (err_at is None):
            out['violations'].append({'class': 'dump-error-differs-from-isolated-dump', 'detail': {'case': case, 'error': res['exc'], 'isolated_error_at': err_at}})
    out['log'] = observe.digest([text, res['exc']])
    out['sample'] = case
    return out


def execute_stream_emit(yaml, case, out):
    """emit / serialize_all of the events / nodes of d1..dn: per document the same events as for di alone."""
    api = case['via']
    base = {'api': api, 'cls': case['cls'], 'opts': case['opts'], 'terminate': True, 'to': 'return'}
    expected = []
    prevdoc = None
    for d in case['docs']:
        want, _ = reference(dict(base, docs=[d]))
        out['sigs'].append(observe.digest([d, prevdoc, api, case['cls'], case['opts']]))
        prevdoc = d
        if want['exc'] is not None:
            out['extra']['stream_emit_document_not_emittable_alone'] = 1
            out['log'] = 'skip'
            return out
        try:
            alone = doc_events(yaml, want['returned'])
        except yaml.YAMLError:
            alone = []
        if len(alone) != 1:
            # the document does not survive emission even alone (e.g. an empty plain scalar at the root
            # written as nothing by LibYAML): that is C05's subject, nothing to compare here
            out['extra']['stream_emit_document_not_reparsable_alone'] = 1
            out['log'] = 'skip'
            return out
        expected.append(alone[0])
    stream_op = dict(base, docs=case['docs'])
    if case.get('same_node'):
        want, _ = reference(dict(base, docs=case['docs'][:1], wrap=True))
        try:
            wrapped = doc_events(yaml, want['returned']) if want['exc'] is None else []
        except yaml.YAMLError:
            wrapped = []
        if len(wrapped) != 1:
            out['extra']['stream_emit_document_not_reparsable_alone'] = 1
            out['log'] = 'skip'
            return out
        expected = [expected[0]] * case['same_node'] + [wrapped[0], wrapped[0]]
        stream_op['same_node'] = case['same_node']
        out['probes']['serialize_all_with_one_node_object_in_several_documents'] = 1
    status, res = kernel.forked(lambda: run_op(yaml, stream_op, new_ctx()), timeout=60)
    if status != 'ok':
        if status == 'error':
            raise RuntimeError(res)
        out['violations'].append({'class': status, 'detail': repr(res)})
        out['log'] = status
        return out
    out['evals'] += len(case['docs'])
    out['probes']['stream_emit_documents'] = len(case['docs'])
    text = res.get('returned')
    if res['exc'] is not None:
        out['violations'].append({'class': 'emit-of-stream-fails-though-each-document-emits-alone', 'detail': {'case': case, 'error': res['exc']}})
    else:
        try:
            got = doc_events(yaml, text)
        except yaml.YAMLError as exc:
            got = None
            out['violations'].append({'class': 'emitted-stream-not-parsable', 'detail': {'case': case, 'error': exc_summary(yaml, exc), 'text': clip(text)}})
        if got is not None and got != expected:
            i = first_diff(expected, got)
            out['violations'].append({'class': 'emitted-document-differs-from-isolated-emit', 'detail': {
                'case': case, 'document': i, 'isolated': clip(expected[i] if i is not None and i < len(expected) else None),
                'in_stream': clip(got[i] if i is not None and i < len(got) else None)}})
    out['log'] = observe.digest([text, res['exc']])
    out['sample'] = case
    return out


# ---------------------------------------------------------------------------

def shrink(case):
    if case['mode'] == 'history':
        steps = case['steps']
        for cand in shr.list_candidates(steps, 1):
            yield dict(case, steps=cand)
        for i, st in enumerate(steps):
            if st.get('inner'):
                flat = [x for g in st['inner'] for x in g]
                if flat:
                    yield dict(case, steps=steps[:i] + [dict(st, inner=[[] for _ in st['inner']])] + steps[i + 1:])
                    yield dict(case, steps=steps[:i] + flat + [dict(st, inner=[[] for _ in st['inner']])] + steps[i + 1:])
                    for gi, g in enumerate(st['inner']):
                        for cand in shr.list_candidates(g, 0):
                            yield dict(case, steps=steps[:i] + [dict(st, inner=st['inner'][:gi] + [cand] + st['inner'][gi + 1:])] + steps[i + 1:])
                else:
                    yield dict(case, steps=steps[:i] + [{'t': 'call', 'op': st['op']}] + steps[i + 1:])
            if st.get('interrupt_at'):
                yield dict(case, steps=steps[:i] + [{k: v for k, v in st.items() if k != 'interrupt_at'}] + steps[i + 1:])
            op = st.get('op')
            if not op:
                continue
            for k in ('nested', 'between', 'fault'):
                if op.get(k):
                    op2 = {kk: vv for kk, vv in op.items() if kk != k}
                    if k == 'nested':
                        op2['cls'] = op2['cls'].replace('Reent', '')
                        op2['docs'] = [d for d in op2['docs'] if d != 'reent'] or ['plain']
                    yield dict(case, steps=steps[:i] + [dict(st, op=op2)] + steps[i + 1:])
            if st['t'] in ('interrupt', 'preempt'):
                yield dict(case, steps=steps[:i] + [{'t': 'call', 'op': op}] + steps[i + 1:])
            if st['t'] == 'preempt' and st.get('inner_steps'):
                yield dict(case, steps=steps[:i] + [{k: v for k, v in st.items() if k != 'inner_steps'}] + steps[i + 1:])
                yield dict(case, steps=steps[:i] + list(st['inner_steps']) + [{k: v for k, v in st.items() if k != 'inner_steps'}] + steps[i + 1:])
                for cand in shr.list_candidates(st['inner_steps'], 1):
                    yield dict(case, steps=steps[:i] + [dict(st, inner_steps=cand)] + steps[i + 1:])
            if st['t'] == 'preempt':
                yield dict(case, steps=steps[:i] + [{'t': 'call', 'op': st['inner_op']}, {'t': 'call', 'op': op}] + steps[i + 1:])
                for key in ('docs', 'vals'):
                    iop = st['inner_op']
                    if iop.get(key) and len(iop[key]) > 1:
                        for cand in shr.list_candidates(iop[key], 1):
                            yield dict(case, steps=steps[:i] + [dict(st, inner_op=dict(iop, **{key: cand}))] + steps[i + 1:])
            for key in ('docs', 'vals'):
                if op.get(key) and len(op[key]) > 1:
                    for cand in shr.list_candidates(op[key], 1):
                        yield dict(case, steps=steps[:i] + [dict(st, op=dict(op, **{key: cand}))] + steps[i + 1:])
        return
    if case.get('evolve'):
        if case['evolve'] > 2:
            yield dict(case, evolve=case['evolve'] - 1)
        return
    key = 'docs' if case['mode'] in ('stream_load', 'stream_emit', 'stream_object') else 'vals'
    for cand in shr.list_candidates(case[key], 1):
        yield dict(case, **{key: cand})
    if case.get('chunk') is not None:
        yield dict(case, chunk=None, form='str')
