"""C03 - reading never fails with anything but a YAML error (hostile-channel facet).

Simulated: the channel between a well-formed (or ill-formed) corpus document and the reader.
The channel injects content faults - truncation (early EOF), bit flips, overwrites from an
alphabet of YAML indicators, dropped ranges, duplicated ranges, stuttering (a short range
repeated many times), reordered pieces, garbage, BOM insertion/removal, odd-length UTF-16,
encoding confusion, lone surrogates (text channel only), nesting bursts - and delivers the
result in memory or through SimReader with a seeded read-size schedule.  Every mutated input
is pushed through scan / parse / compose / compose_all on both back-ends.
Oracle: the call returns or raises a YAMLError; it terminates (watchdog, read budget, worker
liveness); marks of a MarkedYAMLError and the position of a ReaderError lie inside the input.
"""
import re

from sim import corpus, kernel, observe
from sim import shrink as shr
from sim.streams import SimReader, ReadBudgetExceeded

PROPERTY = 'C03'
LEVEL = 'exploration'
CASE_TIMEOUT = 600
PER_CALL_S = 20          # bounded liveness: one library call on <= 64 KiB of input (>= 1000x its normal cost)
HANG_CONFIRM_S = 1500    # isolated re-execution of a suspected hang, per-call limit x10
MAX_NESTING = 300        # the property bounds nesting below the recursion limit
SHALLOW = 60             # a RecursionError on input whose nesting estimate is at most this is a violation
DEEP_OK = 300            # ... and so is one on input whose EXACT nesting depth (counted on the events of an iterative
                         # parse) is at most this: the unchanged composer needs two Python frames per level, so depth 300
                         # is 600 frames plus the harness's own (< 60) under the default recursion limit of 1000
RULE = ('one evaluation = one load (scan | parse | compose | compose_all) x (pure Python | LibYAML) x (in memory | SimReader '
        'stream) of one corpus/synthetic document after 0-5 seeded channel faults; non-trivial = at least one fault was '
        'applied and changed the unit string; distinct = distinct digests of the delivered unit string')
DISTINCT_MEASURE = 'distinct delivered (mutated) unit strings'
ASSUMPTIONS = [
    'only inputs reachable as a corrupted / re-chunked corpus or synthetic document are sampled (arbitrary strings from nowhere are input generation and not claimed)',
    'nesting bursts are bounded to depth 150 (the property excludes depth beyond the recursion limit; RecursionError is counted, not alarmed)',
    'mark bounds are deliberately loose (index <= characters delivered, line <= number of breaks, column <= longest line + 1): exact positions are C09, not claimed',
    'hang = a single load exceeding the 60 s case watchdog (>= 1000x its normal cost), confirmed by re-execution in an idle process',
    'K3 (LibYAML binding + str containing a lone surrogate -> UnicodeEncodeError) is a known finding',
]
STUBS = ['the channel (content faults) and the caller input stream (SimReader)']

INTERESTING = '"\'\\|>!&*%[]{}:#-?@`,\n\r\t 0123456789xuUN_LP~<=.+'
ALPHABET_TEXT = list('"\'\\|>!&*%[]{}:#-?@`,~<=') + ['\n', '\r', '\t', ' ', '\x00', '\x85', '\u2028', '\ufeff', '\xa0',
                                                       'U', 'u', 'x', '0', '9', 'F', 'f', 'G', '\x7f', '\x01', '\uffff', '\U0010ffff']
ALPHABET_BYTES = [ord(c) for c in '"\'\\|>!&*%[]{}:#-?@`,~<=\n\r\t 09UuxFfG'] + [0x00, 0x85, 0xFF, 0xFE, 0xC0, 0xC2, 0xEF, 0xBB, 0xBF,
                                                                                 0x80, 0xE2, 0xED, 0xF4, 0xF8, 0x7F, 0x01]
FAULTS = ['truncate', 'bitflip', 'overwrite', 'drop', 'duplicate', 'stutter', 'swap', 'garbage', 'bom', 'oddlen',
          'confuse', 'surrogate', 'nest', 'transcode', 'numfield', 'flood', 'repeatitem', 'numlong', 'namefield']
# what ends up in a numeric field (escape code, URI escape, version number, indentation indicator)
# after a small corruption: the characters that int() / float() / str.isdigit() accept or almost accept
NUMFIELD_CHARS = ['0', '1', '7', 'f', 'F', '8', 'c', '-', '+', ' ', '\t', '_', '.', 'x', 'X', 'o', 'b', 'e', 'L', 'l', 'G', 'g', '\n', '\u0663', '\u00b2', '\u2460', '\uff10',
                  '\u0967', '\u2082', '\x00', '\x85', '\xa0', '%', '\\']
NUMFIELD_RE = None
# what a lossy transcoder / input method does to ASCII: characters that Python's str predicates
# (isdigit, isdecimal, isspace, isalpha, lower, upper) classify like their ASCII look-alikes
CONFUSABLE = {
    'digit': ['\u00b2', '\u00b3', '\u00b9', '\u0663', '\u06f7', '\u2460', '\u2082', '\u2075', '\uff14', '\u0967', '\U0001d7d8', '\u2488'],
    'space': ['\u00a0', '\u2003', '\u3000', '\u2009', '\u200b', '\u1680', '\u202f', '\u205f', '\x85', '\u2028', '\x0b', '\x0c', '\x1f'],
    'alpha': ['\U00017000', '\U00018d00', '\U0001b170', '\U00030000', '\U00018b00', '\uff21', '\uff41', '\u00aa', '\u00b5', '\u00df', '\u0130', '\u017f', '\u0391', '\u0430', '\uff46', '\u212a', '\ufb01'],
    'punct': ['\uff1a', '\uff0d', '\u2010', '\u2212', '\uff3b', '\uff5b', '\u201c', '\u2018', '\uff03', '\uff01', '\uff06', '\uff0a', '\uff05', '\uff5c', '\uff1e'],
}
APIS = ['scan', 'parse', 'compose', 'compose_all']
BREAKS = re.compile('\r\n|[\n\r\x85\u2028\u2029]')


def canaries():
    """Fixed minimal reproducers of the listed known findings (kernel: one KNOWN-FINDING line per run)."""
    base = {'label': 'canary', 'faults': [], 'sizes': [], 'then': None, 'only': None}
    return {
        'K3-c-parser-lone-surrogate': dict(base, is_text=True, base='a: \udc80\n'),
        'K4-c-parser-uri-escape-invalid-utf8': dict(base, is_text=True, base='!a%c1%a1 x\n'),
    }


def plan(tier):
    if tier == 'quick':
        return {'runs': 64000, 'wall': 300, 'batch': 8, 'shrink_s': 60, 'selfcheck': 8}
    return {'runs': 1500000, 'wall': 2.5 * 3600, 'batch': 32, 'shrink_s': 120, 'selfcheck': 24}


# ---------------------------------------------------------------------------

def pick_pos(r, units, n):
    """A position in [0, n]: biased to land on or next to an indicator / escape / digit."""
    if n == 0:
        return 0
    if r.random() < 0.6:
        for _ in range(8):
            p = r.randrange(n)
            u = units[p]
            ch = chr(u) if isinstance(u, int) else u
            if ch in INTERESTING:
                return min(n, max(0, p + r.choice([0, 0, 0, 1, 1, 2, -1])))
    return r.randint(0, n)


def numfield_pos(r, units, is_text):
    """Offset (in units) of a digit inside a numeric field: a URI escape, a \\x \\u \\U escape, a
    %YAML version, a block scalar indentation indicator, or any other run of digits."""
    global NUMFIELD_RE
    import re
    if NUMFIELD_RE is None:
        NUMFIELD_RE = re.compile(r'%[0-9A-Fa-f]{2}|\\x[0-9A-Fa-f]{2}|\\u[0-9A-Fa-f]{4}|\\U[0-9A-Fa-f]{8}|%YAML +[0-9]+\.[0-9]+|[|>][+-]?[0-9]|[0-9]+')
    wide = None
    if is_text:
        text = units
    elif units[:2] in (b'\xff\xfe', b'\xfe\xff'):
        wide = 'utf-16-le' if units[:2] == b'\xff\xfe' else 'utf-16-be'
        text = units[2:].decode(wide, 'replace')
    else:
        text = units.decode('latin-1')
    ms = list(NUMFIELD_RE.finditer(text))
    if not ms:
        return None
    special = [m for m in ms if not m.group()[0].isdigit()]
    m = r.choice(special) if special and r.random() < 0.75 else r.choice(ms)
    digits = [i for i in range(m.start(), m.end()) if text[i] in '0123456789abcdefABCDEF' and not (text[i] in 'AaML' and m.group().startswith('%YAML'))]
    if not digits:
        return None
    q = r.choice(digits)
    if wide:
        return 2 + 2 * len(text[:q].encode(wide)) // 2
    return q


def gen_fault(r, units, is_text):
    n = len(units)
    kind = r.choice(FAULTS)
    if kind == 'surrogate' and not is_text:
        kind = 'bitflip'
    if kind in ('oddlen', 'confuse') and is_text:
        kind = 'overwrite'
    p = pick_pos(r, units, n)
    f = {'kind': kind, 'at': p}
    if kind == 'transcode':
        # replace an ASCII digit / blank / letter / indicator by a look-alike of the same class
        marks = []
        if n and r.random() < 0.4:
            for i in range(min(n, 5000)):
                u = units[i]
                if (chr(u) if isinstance(u, int) else u) in '&*!%':
                    marks.append(i)
        for _ in range(12):
            q = r.randrange(n) if n else 0
            if marks:
                q = min(n - 1, r.choice(marks) + r.randint(1, 5))     # inside the name that follows an indicator
            u = units[q] if n else ' '
            ch = chr(u) if isinstance(u, int) else u
            cls = 'digit' if ch in '0123456789' else 'space' if ch in ' \t' else 'alpha' if ch.isascii() and ch.isalpha() \
                else 'punct' if ch in ':-[{"\'#!&*%|>' else None
            if cls:
                f['at'] = q
                f['unit'] = r.choice(CONFUSABLE[cls])
                break
        else:
            f['unit'] = r.choice(CONFUSABLE[r.choice(sorted(CONFUSABLE))])
    elif kind == 'numfield':
        q = numfield_pos(r, units, is_text)
        if q is None:
            f['kind'] = 'overwrite'
            f['unit'] = r.choice(ALPHABET_TEXT) if is_text else r.choice(ALPHABET_BYTES)
        else:
            f['at'] = q
            f['unit'] = r.choice(NUMFIELD_CHARS)
    elif kind == 'namefield':
        # a delimiter, control or odd letter inside a NAME (tag, tag handle, anchor, alias, directive): whatever parses
        # names as URIs, identifiers or format strings sees a damaged one
        import re as _re
        text = units if is_text else (units.decode('latin-1') if units[:2] not in (b'\xff\xfe', b'\xfe\xff') else '')
        ms = list(_re.finditer(r'[!&*%][^\s,\[\]{}]{2,}', text[:8000]))
        if not ms:
            f['kind'] = 'overwrite'
            f['unit'] = r.choice(ALPHABET_TEXT) if is_text else r.choice(ALPHABET_BYTES)
        else:
            m = r.choice(ms)
            f['at'] = r.randrange(m.start() + 1, m.end())
            f['unit'] = r.choice(['[', ']', '[', ']', '[', ']', '{', '}', '(', ')', '<', '>', '"', "'", '%', '!', '#', '@', '`', '|', '\\', '^', ' ', ',',
                                  '\x00', '\x7f', '\u00e9', '\U00017000', '%s', '{0}', '%(x)s'])
            f['insert'] = r.random() < 0.5
    elif kind == 'numlong':
        # a numeric field grown to dozens or hundreds of digits (a stuck key, a corrupted length), with or without a
        # character after it that makes the whole thing stop being a number
        q = numfield_pos(r, units, is_text)
        if q is None or (not is_text and units[:2] in (b'\xff\xfe', b'\xfe\xff')):
            f['kind'] = 'overwrite'
            f['unit'] = r.choice(ALPHABET_TEXT) if is_text else r.choice(ALPHABET_BYTES)
        else:
            f['at'] = q
            f['times'] = r.choice([24, 30, 40, 64, 300, 1200, 5000])
            f['tail'] = r.choice(['G', '-', 'x', '_', '.', ':', 'z', '']) if r.random() < 0.7 else None
    elif kind == 'repeatitem':
        # message duplication at record granularity: one item of a flow collection / one line repeated many times
        seps = [0]
        for i in range(min(n, 6000)):
            u = units[i]
            ch = chr(u) if isinstance(u, int) else u
            if ch in ',\n':
                seps.append(i + 1)
        if len(seps) >= 2:
            j = r.randrange(len(seps) - 1)
            f['at'] = seps[j]
            f['len'] = max(1, min(seps[j + 1] - seps[j], 200))
        else:
            f['len'] = min(n, 4) or 1
        f['kind'] = 'stutter'
        f['times'] = r.choice([3, 40, 130, 400, 1025])
    elif kind == 'flood':
        # one unit repeated many times (a stuck key, line noise), preferably at the start of a line
        f['unit'] = r.choice(ALPHABET_TEXT) if is_text else r.choice(ALPHABET_BYTES)
        f['times'] = r.choice([40, 300, 1025, 3000])
        if r.random() < 0.6 and n:
            starts = [0] + [i + 1 for i in range(min(n, 4000)) if (units[i] in '\n\r' if is_text else units[i] in (10, 13))]
            f['at'] = r.choice(starts)
    elif kind == 'bitflip':
        f['bit'] = r.randrange(8 if not is_text else 7)
    elif kind == 'overwrite':
        f['unit'] = r.choice(ALPHABET_TEXT) if is_text else r.choice(ALPHABET_BYTES)
    elif kind in ('drop', 'duplicate'):
        f['len'] = r.choice([1, 1, 2, 3, 8, 40, 400])
    elif kind == 'stutter':
        f['len'] = r.choice([1, 1, 1, 2, 3, 4, 5, 8])
        f['times'] = r.choice([2, 3, 10, 100, 1025, 5000]) if f['len'] <= 3 else r.choice([2, 10, 130, 400, 1025])
    elif kind == 'swap':
        f['len'] = r.choice([1, 2, 5, 30])
        f['to'] = pick_pos(r, units, n)
    elif kind == 'garbage':
        k = r.choice([1, 1, 2, 4, 16])
        f['units'] = [r.choice(ALPHABET_TEXT) if r.random() < 0.7 else chr(r.choice([r.randrange(0x20, 0x7f), r.randrange(0xa0, 0x2fff)]))
                      for _ in range(k)] if is_text else [r.randrange(256) if r.random() < 0.5 else r.choice(ALPHABET_BYTES) for _ in range(k)]
    elif kind == 'bom':
        f['which'] = r.choice(['utf8', 'utf16le', 'utf16be', 'remove', 'text'])
        if r.random() < 0.7:
            f['at'] = 0
    elif kind == 'oddlen':
        f['op'] = r.choice(['append', 'chop'])
    elif kind == 'confuse':
        f['how'] = r.choice(['strip_bom', 'utf16_bom_on_utf8', 'swap_endianness_bom'])
    elif kind == 'surrogate':
        f['unit'] = chr(r.choice([0xD800, 0xDBFF, 0xDC00, 0xDFFF, 0xDC80]))
    elif kind == 'nest':
        f['open'] = r.choice(['[', '{', '- ', '? ', '[{', '!!seq [', '&a ['])
        f['times'] = r.choice([2, 10, 50, 150])
    return f


def apply_fault(units, f, is_text):
    """units: str or bytes.  Returns the faulted unit string (same type)."""
    n = len(units)
    p = min(f.get('at', 0), n)
    k = f['kind']
    if k == 'truncate':
        return units[:p]
    if k == 'bitflip':
        if p >= n:
            return units
        if is_text:
            c = ord(units[p]) ^ (1 << f['bit'])
            if 0xD800 <= c <= 0xDFFF:
                c = 0xFFFD
            return units[:p] + chr(c) + units[p + 1:]
        return units[:p] + bytes([units[p] ^ (1 << f['bit'])]) + units[p + 1:]
    if k == 'overwrite':
        if p >= n:
            return units
        return units[:p] + (f['unit'] if is_text else bytes([f['unit']])) + units[p + 1:]
    if k == 'namefield':
        ins = f['unit'] if is_text else f['unit'].encode('utf-8')
        if p >= n:
            return units
        return units[:p] + ins + units[p if f.get('insert') else p + 1:]
    if k == 'numlong':
        if p >= n:
            return units
        unit = units[p:p + 1]
        e = p + 1
        digits = '0123456789abcdefABCDEF_' if is_text else b'0123456789abcdefABCDEF_'
        while e < n and units[e:e + 1] in digits and e - p < 64:
            e += 1
        tail = f.get('tail')
        ins = unit * f['times']
        t = (tail if is_text else tail.encode('ascii')) if tail else (units[:0])
        return units[:p] + ins + units[p:e] + t + units[e:]
    if k == 'flood':
        ins = f['unit'] * f['times'] if is_text else bytes([f['unit']]) * f['times']
        if not is_text and units[:2] in (b'\xff\xfe', b'\xfe\xff'):
            p -= p % 2
            ins = ins * 2 if f['times'] % 2 else ins
        return units[:p] + ins + units[p:]
    if k == 'numfield':
        if p >= n:
            return units
        if is_text:
            return units[:p] + f['unit'] + units[p + 1:]
        if units[:2] in (b'\xff\xfe', b'\xfe\xff'):
            enc = 'utf-16-le' if units[:2] == b'\xff\xfe' else 'utf-16-be'
            p -= (p - 2) % 2
            return units[:p] + f['unit'].encode(enc) + units[p + 2:]
        return units[:p] + f['unit'].encode('utf-8') + units[p + 1:]
    if k == 'transcode':
        if p >= n:
            return units
        return units[:p] + (f['unit'] if is_text else f['unit'].encode('utf-8')) + units[p + 1:]
    if k == 'drop':
        return units[:p] + units[p + f['len']:]
    if k == 'duplicate':
        return units[:p + f['len']] + units[p:p + f['len']] + units[p + f['len']:]
    if k == 'stutter':
        return units[:p] + units[p:p + f['len']] * f['times'] + units[p + f['len']:]
    if k == 'swap':
        q = min(f['to'], n)
        a, b = sorted([p, q])
        ln = f['len']
        if a + ln > b:
            return units
        return units[:a] + units[b:b + ln] + units[a + ln:b] + units[a:a + ln] + units[b + ln:]
    if k == 'garbage':
        ins = ''.join(f['units']) if is_text else bytes(f['units'])
        return units[:p] + ins + units[p:]
    if k == 'bom':
        if f['which'] == 'remove':
            if is_text:
                return units[1:] if units[:1] == '\ufeff' else units
            for b in (b'\xef\xbb\xbf', b'\xff\xfe', b'\xfe\xff'):
                if units.startswith(b):
                    return units[len(b):]
            return units
        if is_text:
            return units[:p] + '\ufeff' + units[p:]
        b = {'utf8': b'\xef\xbb\xbf', 'utf16le': b'\xff\xfe', 'utf16be': b'\xfe\xff', 'text': b'\xef\xbb\xbf'}[f['which']]
        return units[:p] + b + units[p:]
    if k == 'oddlen':
        return units + b'a' if f['op'] == 'append' else units[:-1]
    if k == 'confuse':
        if f['how'] == 'strip_bom':
            for b in (b'\xef\xbb\xbf', b'\xff\xfe', b'\xfe\xff'):
                if units.startswith(b):
                    return units[len(b):]
            return units
        if f['how'] == 'utf16_bom_on_utf8':
            return b'\xff\xfe' + units
        if units.startswith(b'\xff\xfe'):
            return b'\xfe\xff' + units[2:]
        if units.startswith(b'\xfe\xff'):
            return b'\xff\xfe' + units[2:]
        return units
    if k == 'surrogate':
        if p >= n:
            return units + f['unit']
        return units[:p] + f['unit'] + units[p + 1:]
    if k == 'nest':
        ins = f['open'] * f['times']
        return units[:p] + (ins if is_text else ins.encode('ascii')) + units[p:]
    raise ValueError(k)


def base_payload(r, rd):
    """(label, payload, is_text): a corpus file (raw bytes), a corpus/synthetic text as str, or
    its encoding in one of the byte forms."""
    x = r.random()
    if x < 0.04:
        # the channel delivers something else entirely (a wrong file, line noise): indicator-rich garbage
        n = rd.choice([0, 1, 2, 3, 8, 40, 300, 2000])
        if rd.random() < 0.5:
            return 'noise', ''.join(rd.choice(ALPHABET_TEXT) if rd.random() < 0.6 else chr(rd.choice([rd.randrange(0x20, 0x7f), rd.randrange(0xa0, 0x3000),
                                    rd.randrange(0x10000, 0x10ffff)])) for _ in range(n)), True
        return 'noise', bytes(rd.choice(ALPHABET_BYTES) if rd.random() < 0.6 else rd.randrange(256) for _ in range(n)), False
    if x < 0.046:
        # nesting close to, but inside, the depth the composer supports (DEEP_OK): flow, block and mixed
        d = rd.randint(150, 298)
        shape = rd.randrange(5)
        if shape == 0:
            text = '[' * d + 'x' + ']' * d + '\n'
        elif shape == 1:
            text = '{a: ' * d + 'x' + '}' * d + '\n'
        elif shape == 2:
            text = '- ' * d + 'x\n'
        elif shape == 3:
            text = ''.join(' ' * i + 'k:\n' for i in range(d)) + ' ' * d + 'v\n'
        else:
            text = ''.join(rd.choice(['[', '{a: ', '[b, ']) for _ in range(d))
            text += 'x\n'          # left open: the error must still be a YAMLError
        return ('deepnest', text, True) if rd.random() < 0.6 else ('deepnest', text.encode('utf-8'), False)
    if x < 0.09:
        # tiny recursive documents (an anchor on a collection that contains its own alias): whatever walks
        # a node graph must cope with cycles, also when a fault multiplies the aliases
        text = rd.choice(['&a [x, *a, *a, y]\n', '--- &m {k: *m, j: [*m, *m]}\n', '- &a [*a]\n- *a\n- *a\n', '&a\n- *a\n- *a\n- b: *a\n',
                          '? &k [*k]\n: *k\n', '&a [&b {x: *a, y: *b}, *b, *a, *a]\n',
                          # aliases and anchors next to collection keys (defined, undefined, on the key itself)
                          '[a, b]: *missing\n', '? - foo\n  - bar\n: *baz\n', '--- &x one\n--- {? {sea: green} : *x}\n',
                          '? &k {a: b}\n: *k\n? *k\n: c\n', '{[a, *u]: v}\n', '&a [x]: *a\n', '- ? [*a]\n  : &a b\n',
                          # tags that are URLs, URNs, or carry escapes (whatever inspects a tag must survive a damaged one)
                          '!<http://example.com/point> v\n', '%TAG !e! http://example.com/schema/\n--- !e!point {x: 1}\n',
                          '!<https://Example.COM:8080/a%20b?q=1> [1]\n', '--- !<urn:x-y:%41%C3%A9> z\n', '!e%21x &a%20 v\n'])
        return ('recursive', text, True) if rd.random() < 0.5 else ('recursive', text.encode('utf-8'), False)
    if x < 0.14:
        # small layouts the corpus does not contain: a quoted scalar that spans lines, its last line at an
        # arbitrary indentation, followed on the same line by another token (all small combinations)
        q = rd.choice(['"', "'"])
        n = rd.randint(0, 6)
        a = rd.randint(0, n + 1)
        b = rd.randint(0, 3)
        last = rd.choice(['', '', 'y', 'b c'])
        nxt = rd.choice(['z: 1', 'y', '- w', '# c', ': v', '? q', 'z:', ', u', '] ', '&a v', '!t v', '*a', '|', '"q"', ''])
        shape = rd.randrange(4)
        if shape == 0:
            text = ' ' * n + 'k: ' + q + 'x\n' + ' ' * a + last + q + ' ' * b + nxt + '\n'
        elif shape == 1:
            text = '- ' * rd.randint(1, 3) + q + 'x\n' + ' ' * a + last + q + ' ' * b + nxt + '\n'
        elif shape == 2:
            text = 'top:\n' + ' ' * n + 'k: ' + q + 'a\n' + ' ' * a + last + q + ' ' * b + nxt + '\nmore: 1\n'
        else:
            text = ' ' * n + '? ' + q + 'x\n' + ' ' * a + last + q + ' ' * b + nxt + '\n' + ' ' * n + ': v\n'
        if rd.random() < 0.5:
            return 'layout', text, True
        return 'layout', text.encode('utf-8'), False
    if x < 0.3:
        fs = corpus.files()
        name, data = fs[rd.randrange(len(fs))]
        if len(data) > 6000:
            a = rd.randrange(len(data) - 6000)
            data = data[a:a + 6000] if rd.random() < 0.5 else data[:6000]
        return name, data, False
    label, text = corpus.pick_text(rd, p_corpus=0.35)
    if len(text) > 6000:
        text = text[:6000]
    y = r.random()
    if y < 0.4:
        return label, text, True
    if y < 0.7:
        return label, text.encode('utf-8'), False
    if y < 0.8:
        return label, b'\xef\xbb\xbf' + text.encode('utf-8'), False
    if y < 0.9:
        return label, b'\xff\xfe' + text.encode('utf-16-le'), False
    return label, b'\xfe\xff' + text.encode('utf-16-be'), False


def generate(seed, tier):
    r = kernel.rng(seed, 'case')
    rd = kernel.rng(seed, 'doc')
    rf = kernel.rng(seed, 'faults')
    rs = kernel.rng(seed, 'schedule')
    label, payload, is_text = base_payload(r, rd)
    nf = 0 if r.random() < 0.1 else r.choice([1, 1, 1, 2, 2, 3, 5])
    faults = []
    cur = payload
    for _ in range(nf):
        f = gen_fault(rf, cur, is_text)
        faults.append(f)
        cur = apply_fault(cur, f, is_text)
        if len(cur) > 40000:
            break
    n = len(cur)
    x = rs.random()
    if x < 0.4:
        sched = {'sizes': [], 'then': rs.choice([1, 2, 3, 7])}
    elif x < 0.8:
        sched = {'sizes': [rs.choice([1, 2, 3, 5, 17, 100, 1000, 4095, 4096, 4097]) for _ in range(rs.randint(1, 40))],
                 'then': rs.choice([None, 1, 64])}
    else:
        sched = {'sizes': [], 'then': None}
    if n > 8000 and sched['then'] is not None and sched['then'] < 16:
        sched['then'] = 64
    return {'label': label, 'is_text': is_text,
            'base': payload if is_text else payload.hex(), 'faults': faults,
            'sizes': sched['sizes'], 'then': sched['then'], 'only': None,
            'loader': kernel.rng(seed, 'loader').choice(['SafeLoader'] * 4 + ['Loader', 'FullLoader', 'BaseLoader', 'PathLoader', 'PathLoader']),
            'read_fault': read_fault(kernel.rng(seed, 'readfault'))}


READ_FAULT_KINDS = ['UnicodeDecodeError', 'UnicodeEncodeError', 'OSError', 'ValueError', 'IndexError', 'KeyError', 'TypeError',
                    'AttributeError', 'LookupError', 'EOFError', 'AssertionError', 'OverflowError']


def read_fault(r):
    """In an eighth of the cases the stream itself fails at a seeded read() call (a text file opened with the wrong codec, a
    dropped connection): what reaches the caller must be that very exception or a YAMLError, never a third kind."""
    if r.random() >= 0.125:
        return None
    return {'at': r.choice([0, 1, 1, 2, 2, 3, 4, 6, 10, 25]), 'kind': r.choice(READ_FAULT_KINDS)}


def make_read_fault(f):
    k = f['kind']
    if k == 'UnicodeDecodeError':
        return UnicodeDecodeError('utf-8', b'abc\xe9', 3, 4, 'simulated: invalid continuation byte')
    if k == 'UnicodeEncodeError':
        return UnicodeEncodeError('ascii', 'ab\xe9', 2, 3, 'simulated')
    if k == 'OSError':
        return OSError(5, 'simulated I/O error')
    return {'ValueError': ValueError, 'IndexError': IndexError, 'KeyError': KeyError, 'TypeError': TypeError, 'AttributeError': AttributeError,
            'LookupError': LookupError, 'EOFError': EOFError, 'AssertionError': AssertionError, 'OverflowError': OverflowError}[k]('simulated stream failure')


def payload_of(case):
    units = case['base'] if case['is_text'] else bytes.fromhex(case['base'])
    for f in case['faults']:
        units = apply_fault(units, f, case['is_text'])
    return units


def describe(case):
    units = payload_of(case)
    return {'label': case['label'], 'is_text': case['is_text'], 'loader': case.get('loader'), 'read_fault': case.get('read_fault'), 'faults': case['faults'][:5],
            'delivered_len': len(units), 'delivered_head': repr(units[:80]), 'then': case['then'], 'sizes_head': case['sizes'][:8]}


# ---------------------------------------------------------------------------

def bounds(units, is_text):
    if is_text:
        text = units
    else:
        if units.startswith(b'\xff\xfe'):
            text = units.decode('utf-16-le', 'replace')
        elif units.startswith(b'\xfe\xff'):
            text = units.decode('utf-16-be', 'replace')
        else:
            text = units.decode('utf-8', 'replace')
    nchars = len(text) + 1
    lines = BREAKS.split(text)
    return nchars, len(lines) + 1, max(len(l) for l in lines) + 2


URI_RUN = None


def bad_uri_escape(units, is_text):
    """True iff the delivered text contains a run of %XX escapes whose octets are not valid UTF-8
    (overlong forms, surrogates, beyond U+10FFFF, ...): the only inputs known finding K4 is matched on."""
    global URI_RUN
    import re
    if URI_RUN is None:
        URI_RUN = re.compile(r'(?:%[0-9A-Fa-f]{2})+')
    if is_text:
        text = units
    elif units[:2] == b'\xff\xfe':
        text = units.decode('utf-16-le', 'replace')
    elif units[:2] == b'\xfe\xff':
        text = units.decode('utf-16-be', 'replace')
    else:
        text = units.decode('utf-8', 'replace')
    for m in URI_RUN.finditer(text):
        try:
            bytes.fromhex(m.group().replace('%', '')).decode('utf-8')
        except UnicodeDecodeError:
            return True
    return False


def nesting_estimate(units, is_text):
    """Upper estimate of the nesting depth a text can reach: open flow brackets, and the longest run of
    repeated block indicators ('- - - ...', '? ? ? ...') on one line."""
    import re
    if is_text:
        text = units
    elif units[:2] == b'\xff\xfe':
        text = units.decode('utf-16-le', 'replace')
    elif units[:2] == b'\xfe\xff':
        text = units.decode('utf-16-be', 'replace')
    else:
        text = units.decode('latin-1')
    depth = best = 0
    for ch in text:
        if ch in '[{':
            depth += 1
            if depth > best:
                best = depth
        elif ch in ']}' and depth:
            depth -= 1
    for m in re.finditer(r'(?:[-?:][ \t]+){50,}', text):
        best = max(best, len(re.findall(r'[-?:]', m.group())))
    return best


def exact_depth(yaml, units):
    """Nesting depth of the input, counted on the events of the pure-Python parser (a state machine with an explicit
    stack, no recursion).  None when the parser itself cannot tell (it raised something that is not a YAMLError)."""
    depth = best = 0
    try:
        for ev in yaml.parse(units, Loader=yaml.SafeLoader):
            if isinstance(ev, yaml.CollectionStartEvent):
                depth += 1
                best = max(best, depth)
            elif isinstance(ev, yaml.CollectionEndEvent):
                depth -= 1
    except yaml.YAMLError:
        pass
    except Exception:
        return None
    return best


def check_marks(exc, units, is_text, lim):
    import yaml
    bad = []
    if isinstance(exc, yaml.MarkedYAMLError):
        for name in ('context_mark', 'problem_mark'):
            m = getattr(exc, name)
            if m is None:
                continue
            if lim[0] is None:
                lim[:] = bounds(units, is_text)
            if not (0 <= m.index <= lim[0] and 0 <= m.line <= lim[1] and 0 <= m.column <= lim[2]):
                bad.append([name, m.index, m.line, m.column, list(lim)])
    elif isinstance(exc, yaml.reader.ReaderError):
        pos = exc.position
        # pure Python: an index into the delivered units; LibYAML: a byte offset into the UTF-8 form of a str
        # (the offending unit lies inside the input: position <= len - 1; equality with len is tolerated)
        limit = len(units)
        if is_text and type(exc).__module__ != 'yaml.reader':
            limit = len(units.encode('utf-8', 'surrogatepass'))
        elif is_text and getattr(exc, 'encoding', None) not in (None, 'unicode'):
            limit = len(units.encode('utf-8', 'surrogatepass'))
        if not isinstance(pos, int) or not (0 <= pos <= limit):
            bad.append(['position', pos, len(units)])
    return bad


_loaders = {}


def loader_for(yaml, name, backend):
    """Shipped loader classes of both back-ends, plus a harness subclass that has path resolvers and an extra
    implicit resolver registered (composing then runs the descend / ascend / check_resolver_prefix code, which
    is idle for the shipped classes)."""
    key = (name, backend)
    if key not in _loaders:
        pre = 'C' if backend == 'c' else ''
        if name != 'PathLoader':
            _loaders[key] = getattr(yaml, pre + name)
        else:
            cls = type(pre + 'PathLoader', (getattr(yaml, pre + 'SafeLoader'),), {})
            cls.add_path_resolver('!p/root-seq', [], list)
            cls.add_path_resolver('!p/key-a', ['a'], str)
            cls.add_path_resolver('!p/any-map', [None], dict)
            cls.add_path_resolver('!p/second', [1], None)
            cls.add_path_resolver('!p/deep', ['a', 0, (dict, 'k')], str)
            cls.add_path_resolver('!p/keyside', [(dict, False)], str)
            cls.add_path_resolver('!p/null', ['n', None], None)
            cls.add_implicit_resolver('!p/ver', re.compile(r'^v[0-9]+$'), ['v'])
            cls.add_implicit_resolver('!p/any', re.compile(r'^@@.*$'), None)
            _loaders[key] = cls
    return _loaders[key]


def execute(case):
    import yaml
    out = {'violations': [], 'evals': 0, 'probes': {}, 'faults': {}, 'sigs': [], 'extra': {}}
    units = payload_of(case)
    is_text = case['is_text']
    base = case['base'] if is_text else bytes.fromhex(case['base'])
    changed = units != base
    for f in case['faults']:
        out['faults'][f['kind']] = out['faults'].get(f['kind'], 0) + 1
    if not case['faults']:
        out['extra']['fault_free_runs'] = 1
    nest = nesting_estimate(units, is_text)
    if nest > MAX_NESTING:
        # e.g. a stuttered '[' or '- ': nesting beyond the recursion limit is outside the property's quantifier
        # (and the pure-Python scanner's cost per token grows with the flow level, which is C20's subject)
        out['extra']['nesting_beyond_bound_out_of_scope'] = 1
        out['log'] = 'deep'
        return out
    have_c = getattr(yaml, '__with_libyaml__', False)
    has_surrogate = is_text and any('\ud800' <= c <= '\udfff' for c in units)
    lim = [None, None, None]
    logparts = []
    loads = []
    for backend in ('py', 'c'):
        if backend == 'c' and not have_c:
            out['extra']['c_backend_not_run'] = 1
            continue
        for api in APIS:
            for via in ('memory', 'stream'):
                loads.append((backend, api, via))
    if case.get('only'):
        loads = [tuple(case['only'])]
    current = [None]
    try:
        for backend, api, via in loads:
            current[0] = (backend, api, via)
            L = loader_for(yaml, case.get('loader') or 'SafeLoader', backend)
            injected = None
            if via == 'stream' and case.get('read_fault'):
                injected = make_read_fault(case['read_fault'])
                src = SimReader(units, case['sizes'], case['then'], fault=(case['read_fault']['at'], injected))
                out['faults']['stream-raises:' + case['read_fault']['kind']] = out['faults'].get('stream-raises:' + case['read_fault']['kind'], 0) + 1
            else:
                src = units if via == 'memory' else SimReader(units, case['sizes'], case['then'])
            n_items = 0
            exc = None
            try:
                with kernel.watchdog(PER_CALL_S * kernel.hang_scale[0]):
                    if api == 'compose':
                        yaml.compose(src, Loader=L)
                        n_items = 1
                    else:
                        for _ in getattr(yaml, api)(src, Loader=L):
                            n_items += 1
            except yaml.YAMLError as e:
                exc = e
            except RecursionError:
                if nest <= SHALLOW:
                    out['violations'].append({'class': 'recursion-error-on-shallow-input', 'detail': {
                        'load': [backend, api, via], 'nesting_estimate': nest}})
                    logparts.append([backend, api, via, 'EXC', 'RecursionError'])
                    out['evals'] += 1
                    break
                d = exact_depth(yaml, units)
                if d is not None and d <= DEEP_OK:
                    out['violations'].append({'class': 'recursion-error-below-supported-depth', 'detail': {
                        'load': [backend, api, via], 'nesting_estimate': nest, 'exact_depth': d}})
                    logparts.append([backend, api, via, 'EXC', 'RecursionError', d])
                    out['evals'] += 1
                    break
                out['extra']['recursion_errors_out_of_scope'] = out['extra'].get('recursion_errors_out_of_scope', 0) + 1
                exc = None
            except ReadBudgetExceeded as e:
                out['violations'].append({'class': 'reads-after-eof-unbounded', 'detail': {'load': [backend, api, via], 'error': str(e)}})
                break
            except kernel.Hang:
                raise
            except Exception as e:
                if e is injected:
                    # the stream's own exception passing through unchanged (C19's subject) is not a failure of the reader
                    out['probes']['stream_exception_passed_through'] = out['probes'].get('stream_exception_passed_through', 0) + 1
                    out['evals'] += 1
                    logparts.append([backend, api, via, n_items, 'INJECTED'])
                    continue
                cls = ('non-yaml-exception:' if injected is None else 'non-yaml-exception-after-stream-failure:') + type(e).__name__
                if backend == 'c' and has_surrogate and isinstance(e, UnicodeEncodeError):
                    cls = 'K3-c-parser-lone-surrogate'
                elif backend == 'c' and isinstance(e, UnicodeDecodeError) and bad_uri_escape(units, is_text):
                    cls = 'K4-c-parser-uri-escape-invalid-utf8'
                out['violations'].append({'class': cls, 'detail': {'load': [backend, api, via], 'exception': type(e).__name__,
                                                                  'message': str(e)[:300]}})
                logparts.append([backend, api, via, 'EXC', type(e).__name__])
                out['evals'] += 1
                if cls.startswith(('K3', 'K4')):
                    continue
                break
            out['evals'] += 1
            if exc is not None:
                try:
                    str(exc)
                except Exception as e2:
                    # an error that cannot be printed fails with "another exception type" as soon as it is logged
                    out['violations'].append({'class': 'error-not-printable:' + type(e2).__name__, 'detail': {
                        'load': [backend, api, via], 'error': type(exc).__name__, 'str_raises': repr(e2)[:300]}})
                    break
                bad = check_marks(exc, units, is_text, lim)
                if bad:
                    out['violations'].append({'class': 'mark-outside-input', 'detail': {'load': [backend, api, via], 'marks': bad,
                                                                                       'error': observe.error(exc)}})
                    break
                out['probes']['error_' + type(exc).__name__] = out['probes'].get('error_' + type(exc).__name__, 0) + 1
            else:
                out['probes']['loads_without_error'] = out['probes'].get('loads_without_error', 0) + 1
            logparts.append([backend, api, via, n_items, observe.error(exc) if exc is not None else None])
    except kernel.Hang:
        out['violations'].append({'class': 'hang', 'detail': {'load': list(current[0]) if current[0] else None}})
    # keep one record per known class and case
    for kn in ('K3', 'K4'):
        kk = [v for v in out['violations'] if v['class'].startswith(kn)]
        out['violations'] = [v for v in out['violations'] if not v['class'].startswith(kn)] + kk[:1]
    if changed:
        out['sigs'].append(observe.digest(units if is_text else units.hex()))
    out['log'] = observe.digest(logparts)
    out['sample'] = describe(case)
    return out


# ---------------------------------------------------------------------------

def shrink_first(case, violation):
    d = violation.get('detail') or {}
    if d.get('load'):
        return dict(case, only=d['load'])
    return None


def shrink(case):
    if len(case['faults']) > 0:
        for cand in shr.list_candidates(case['faults'], 0):
            yield dict(case, faults=cand)
    if case['faults']:
        # freeze the faults into the base, then shrink the literal payload
        units = payload_of(case)
        yield dict(case, base=units if case['is_text'] else units.hex(), faults=[])
        return
    if case['is_text']:
        for t in shr.text_candidates(case['base']):
            yield dict(case, base=t)
    else:
        for b in shr.bytes_candidates(bytes.fromhex(case['base'])):
            yield dict(case, base=b.hex())
    if case['sizes']:
        yield dict(case, sizes=[])
    if case.get('read_fault'):
        yield dict(case, read_fault=None)
        if case['read_fault']['at'] > 0:
            yield dict(case, read_fault=dict(case['read_fault'], at=case['read_fault']['at'] - 1))
