"""C07 - the result does not depend on how the input is delivered.

Simulated: the input channel.  One run = one text x API x back-end, delivered in-memory
(str / UTF-8 / UTF-8+BOM / UTF-16-LE+BOM / UTF-16-BE+BOM), through io.StringIO/BytesIO and
through SimReader streams whose piece sizes are decided by a seeded scheduler (random,
targeted at multi-byte sequences / surrogate pairs / CR|LF / BOM / refill-block multiples,
and every two-piece split for small texts); the pure-Python reader's refill block size is a
per-delivery knob.  Oracle: every delivery observes what the in-memory str delivery
observes.  Texts with one reader-level defect: ReaderError signature identical for every
chunking and inside the independently computed offset range; delivered items are a prefix
of what the laziest delivery delivers (K1 relaxation, see DESIGN.md section 5).
"""
import codecs
import io
import re

from sim import corpus, kernel, observe
from sim import shrink as shr
from sim.streams import SimReader, ReadBudgetExceeded

PROPERTY = 'C07'
LEVEL = 'exploration'
CASE_TIMEOUT = 120
REPLAY_ATTEMPTS = 5      # the primed deliveries depend on address reuse, which the simulator does not own
RULE = ('one evaluation = one delivery (form x read-size schedule x refill-block knob) of a seeded text through one API '
        'and back-end, compared with the in-memory str delivery of the same text; non-trivial = the stream returned at '
        'least one piece that is not a full requested block; distinct = distinct (text, API, back-end, form, read log) digests')
DISTINCT_MEASURE = 'distinct (text, API, back-end, form, sequence of read() requests and returned lengths) digests'
ASSUMPTIONS = [
    'reference = the in-memory str delivery of the same text on the same back-end (back-ends are never compared with each other)',
    'mark.index is compared modulo the one-character BOM shift of the pure-Python reader; StreamStart.encoding only within one encoding family',
    'documents are bounded (<= ~16k characters, nesting <= 5); the exhaustive two-piece splits cover texts <= 256 units',
    'reader-level defects: exactly one defect per text; K1 (eager validation of a refill block) is accepted as a known finding',
    'an edited _yaml.pyx cannot be rebuilt (no Cython); the C back-end is the generated _yaml.c / shipped .so',
]
STUBS = ['caller input streams (SimReader)']

BOMS = {'utf8bom': codecs.BOM_UTF8, 'utf16le': codecs.BOM_UTF16_LE, 'utf16be': codecs.BOM_UTF16_BE, 'utf8': b''}
ENC = {'utf8': 'utf-8', 'utf8bom': 'utf-8', 'utf16le': 'utf-16-le', 'utf16be': 'utf-16-be'}
FAMILIES = ['text', 'utf8', 'utf8bom', 'utf16le', 'utf16be']
APIS = ['scan', 'parse', 'compose_all', 'load_all']
NONPRINT = ['\x00', '\x01', '\x07', '\x0b', '\x0c', '\x1b', '\x7f', '\x80', '\x84', '\x86', '\x9f', '\ufffe', '\uffff']
BAD_UTF8 = ['ff', 'fe', 'c3', 'e282', 'c080', 'eda080', 'f4908080', 'f8888080', '80', 'bf', 'f09f98']
BAD_UTF16 = ['lonehigh', 'lonelow', 'odd', 'high-eof']


def canaries():
    return {'K1-eager-block-validation': {
        'api': 'scan', 'backend': 'py', 'label': 'canary', 'mode': 'defect', 'text': 'a: b: c\n',
        'defect': {'at': 8, 'kind': 'nonprintable', 'char': '\x01'},
        'deliveries': [{'form': 'text', 'via': 'memory'},
                       {'block': 1, 'form': 'text', 'lazy': True, 'sizes': [], 'then': 1, 'via': 'sim'}]}}


def plan(tier):
    if tier == 'quick':
        return {'runs': 30000, 'wall': 300, 'batch': 8, 'shrink_s': 45, 'selfcheck': 8}
    return {'runs': 2500000, 'wall': 2.5 * 3600, 'batch': 32, 'shrink_s': 120, 'selfcheck': 32}


# ---------------------------------------------------------------------------
# encoding a text (or a text with one defect) into the unit string of a family

def encode(text, family):
    if family == 'text':
        return text
    return BOMS[family] + text.encode(ENC[family])


def build_defect(text, defect, family):
    """(data, lo, hi_py, hi_c): the delivered unit string and the admissible position of the
    ReaderError: pure Python reports exactly `py`, LibYAML something in [c_lo, c_hi]."""
    at = defect['at']
    pre, post = text[:at], text[at:]
    if defect['kind'] == 'nonprintable':
        ch = defect['char']
        if defect.get('second'):
            # a second unprintable character (usually of another class) further on: the FIRST one in the text is
            # what every delivery must report
            gap = min(defect['second']['gap'], len(post))
            post = post[:gap] + defect['second']['char'] + post[gap:]
        if family == 'text':
            data = pre + ch + post
            lo = len(pre.encode('utf-8'))
            return data, at, lo, lo + len(ch.encode('utf-8'))
        enc = ENC[family]
        bom = BOMS[family]
        data = bom + pre.encode(enc) + ch.encode(enc) + post.encode(enc)
        lo = len(bom) + len(pre.encode(enc))
        return data, at + (1 if bom else 0), lo, lo + len(ch.encode(enc))
    # undecodable bytes (byte families only)
    enc = ENC[family]
    bom = BOMS[family]
    bad = bad_bytes(defect['bad'], family)
    if defect['bad'] in ('odd', 'high-eof') or defect.get('at_eof'):
        pre, post = text, ''
    lo = len(bom) + len(pre.encode(enc))
    data = bom + pre.encode(enc) + bad + post.encode(enc)
    return data, lo, lo, lo + len(bad)


def bad_bytes(kind, family):
    if family in ('utf8', 'utf8bom'):
        return bytes.fromhex(kind)
    le = family == 'utf16le'
    if kind == 'lonehigh':
        return b'\x00\xd8' if le else b'\xd8\x00'
    if kind == 'lonelow':
        return b'\x00\xdc' if le else b'\xdc\x00'
    if kind == 'odd':
        return b'a'
    if kind == 'high-eof':
        return b'\x01\xd8' if le else b'\xd8\x01'
    raise ValueError(kind)


# ---------------------------------------------------------------------------
# generation

def interesting_cuts(r, data, family, block):
    """Offsets (in units of the delivered string) where a piece boundary is interesting."""
    n = len(data)
    cuts = set()
    if n < 2:
        return []
    cand = []
    if family == 'text':
        for m in re.finditer('\r\n', data):
            cand.append(m.start() + 1)
        for m in re.finditer('[\U00010000-\U0010ffff]', data):
            cand.append(m.start())
            cand.append(m.start() + 1)
    elif family in ('utf8', 'utf8bom'):
        i = 0
        limit = 0
        for m in re.finditer(b'[\x80-\xbf]', data):        # before a continuation byte = inside a sequence
            cand.append(m.start())
            limit += 1
            if limit > 4000:
                break
        for m in re.finditer(b'\r\n', data):
            cand.append(m.start() + 1)
    else:
        le = family == 'utf16le'
        pat = b'[\x00-\xff][\xd8-\xdb]' if le else b'[\xd8-\xdb][\x00-\xff]'
        for i in range(2, min(n - 1, 40000), 2):
            hi = data[i + 1] if le else data[i]
            if 0xD8 <= hi <= 0xDB:
                cand.extend([i + 1, i + 2, i + 3])
        crlf = '\r\n'.encode(ENC[family])
        start = 0
        while True:
            j = data.find(crlf, start)
            if j < 0:
                break
            if j % 2 == 0:
                cand.extend([j + 1, j + 2, j + 3])
            start = j + 2
        cand.extend(r.randrange(1, n) | 1 for _ in range(3))   # odd offsets: inside a code unit
    if cand:
        for _ in range(min(len(cand), r.randint(1, 6))):
            cuts.add(cand[r.randrange(len(cand))])
    cuts.update([1, 2, 3, n - 1, n - 2])
    for k in range(block, n, block):
        if r.random() < 0.7:
            cuts.update([k - 1, k, k + 1])
    return sorted(c for c in cuts if 0 < c < n)


def random_schedule(r, data, family, backend, block):
    from sim import streams
    n = len(data)
    kind = r.choice(['ones', 'small', 'geometric', 'near_block', 'targeted', 'targeted', 'random', 'random', 'full'])
    blk = block or (4096 if backend == 'py' else 16384)
    if n > 6000 and kind in ('ones', 'small') and r.random() < 0.8:
        kind = 'targeted'
    if kind == 'ones':
        s = streams.sched_all_ones(r, n)
    elif kind == 'small':
        s = streams.sched_small(r, n)
    elif kind == 'geometric':
        s = streams.sched_geometric(r, n)
    elif kind == 'near_block':
        s = streams.sched_near_block(r, n, blk)
    elif kind == 'targeted':
        cuts = interesting_cuts(r, data, family, blk)
        k = r.randint(1, max(1, min(len(cuts), 8)))
        chosen = sorted(r.sample(cuts, min(k, len(cuts)))) if cuts else []
        s = streams.sched_targeted(r, n, chosen)
        s['then'] = r.choice([None, None, 1, blk])
    elif kind == 'random':
        s = streams.sched_random(r, n)
    else:
        s = streams.sched_full(r, n)
    s['kind'] = kind
    return s


def generate(seed, tier):
    r = kernel.rng(seed, 'case')
    mode = r.random()
    api = r.choice(APIS)
    backend = r.choice(['py', 'c'])
    label, text = corpus.pick_text(kernel.rng(seed, 'doc'))
    case = {'label': label, 'api': api, 'backend': backend, 'mode': 'clean', 'defect': None,
            'loader': kernel.rng(seed, 'loader').choice(['SafeLoader', 'SafeLoader', 'SafeLoader', 'FullLoader', 'BaseLoader'])}
    rs = kernel.rng(seed, 'schedule')
    if mode < 0.10:
        # every two-piece split of a small text through one stream family
        if len(text) > 200:
            text = text[:r.randint(20, 200)]
        family = r.choice(FAMILIES)
        case.update(mode='splits', text=text, family=family, block=r.choice([None, None, 1, 2, 7]))
        return case
    if mode < 0.17:
        # the Reader class driven directly: peek / prefix / forward sequences
        if len(text) > 600:
            a = r.randint(0, len(text) - 600)
            text = text[a:a + r.randint(50, 600)]
        ops, budget = [], len(text)
        while budget > 0 and len(ops) < 300:
            x = r.random()
            if x < 0.5:
                k = min(budget, r.choice([1, 1, 1, 2, 3, 5, 17]))
                ops.append(['forward', k])
                budget -= k
            elif x < 0.8:
                ops.append(['peek', r.choice([0, 0, 1, 2, 3, 10])])
            else:
                ops.append(['prefix', r.choice([1, 2, 3, 4, 8, 100])])
        fam = r.choice(FAMILIES)
        data = encode(text, fam)
        dels = []
        for _ in range(3):
            block = r.choice([None, 1, 1, 2, 3, 7, 64])
            s = random_schedule(rs, data, fam, 'py', block)
            dels.append({'form': fam, 'via': 'sim', 'sizes': s['sizes'], 'then': s['then'], 'block': block, 'kind': s['kind']})
        case.update(mode='reader', backend='py', api='Reader', text=text, ops=ops, deliveries=dels)
        return case
    if mode < 0.36:
        # exactly one reader-level defect
        if len(text) > 3000 and r.random() < 0.7:
            text = text[:r.randint(100, 3000)]
        text = text.replace('\ufeff', '')
        at = r.randint(0, len(text))
        if r.random() < 0.3:
            # the very first / second / last character: where encoding detection and the end of input are decided
            at = r.choice([0, 0, 0, 1, len(text), max(0, len(text) - 1)])
        if r.random() < 0.5:
            defect = {'kind': 'nonprintable', 'char': r.choice(NONPRINT), 'at': at}
            if r.random() < 0.35:
                defect['second'] = {'char': r.choice([c for c in NONPRINT if c != defect['char']]), 'gap': r.choice([0, 1, 2, 5, 20, 100, 1000])}
            fams = FAMILIES
        else:
            fam = r.choice(['utf8', 'utf8bom', 'utf16le', 'utf16be'])
            if fam.startswith('utf8'):
                defect = {'kind': 'badbytes', 'bad': r.choice(BAD_UTF8), 'at': at, 'at_eof': r.random() < 0.2}
                fams = ['utf8', 'utf8bom']
            else:
                defect = {'kind': 'badbytes', 'bad': r.choice(BAD_UTF16), 'at': at}
                fams = [fam]
        case.update(mode='defect', text=text, defect=defect)
        dels = []
        for fam in fams:
            if r.random() < 0.5 and len(fams) > 2:
                continue
            data, _, _, _ = build_defect(text, defect, fam)
            dels.append({'form': fam, 'via': 'memory'})
            if r.random() < 0.4:
                # the same in-memory delivery once more, right after a CLEAN text of the same length and kind was loaded and
                # released (a config file re-read after an edit): what was learnt about that object must not stick to this one
                dels.append({'form': fam, 'via': 'memory', 'prime': True})
            dels.append({'form': fam, 'via': 'sim', 'sizes': [], 'then': 1, 'block': 1 if backend == 'py' else None, 'lazy': True})
            for _ in range(r.randint(1, 3)):
                block = r.choice([None, None, 1, 2, 3, 7, 64]) if backend == 'py' else None
                s = random_schedule(rs, data, fam, backend, block)
                dels.append({'form': fam, 'via': 'sim', 'sizes': s['sizes'], 'then': s['then'], 'block': block, 'kind': s['kind']})
        case['deliveries'] = dels
        return case
    # clean text: all forms
    if r.random() < 0.003:
        # one token of more than a MiB (an embedded blob): limits and counters that exist on one delivery path only
        n = r.choice([1100000, 1300000])
        text = r.choice(['"%s"\n', "'%s'\n", 'blob: %s\n', '- |\n  %s\n']) % ('QUJD' * (n // 4))
        case.update(api='scan' if backend == 'py' else case['api'], text=text, label='megatoken',
                    deliveries=[{'form': 'text', 'via': 'memory'}, {'form': 'utf8', 'via': 'memory'}, {'form': 'text', 'via': 'io'},
                                {'form': 'utf8', 'via': 'sim', 'sizes': [], 'then': None, 'block': None, 'kind': 'full'},
                                {'form': 'text', 'via': 'sim', 'sizes': [], 'then': 65536, 'block': None, 'kind': 'full'}])
        return case
    dels = [{'form': 'text', 'via': 'memory'}]
    if r.random() < 0.35:
        dels.append({'form': 'text', 'via': 'wrapper'})       # a real io.TextIOWrapper over an encoded file
    for fam in FAMILIES:
        if fam != 'text' and r.random() < 0.6:
            dels.append({'form': fam, 'via': 'memory'})
        if r.random() < 0.25:
            dels.append({'form': fam, 'via': 'io'})
        data = encode(text, fam)
        for _ in range(r.choice([0, 1, 1, 2])):
            block = r.choice([None, None, None, 1, 2, 3, 7, 64]) if backend == 'py' else None
            s = random_schedule(rs, data, fam, backend, block)
            dels.append({'form': fam, 'via': 'sim', 'sizes': s['sizes'], 'then': s['then'], 'block': block, 'kind': s['kind']})
    case.update(text=text, deliveries=dels)
    if len(text) < 20000 and r.random() < 0.3:
        case['interleave'] = True
    return case


def describe(case):
    d = {k: case.get(k) for k in ('label', 'api', 'backend', 'loader', 'mode', 'defect', 'family')}
    d['text_head'] = case['text'][:80]
    d['text_len'] = len(case['text'])
    if 'deliveries' in case:
        d['deliveries'] = [{k: (v[:12] if isinstance(v, list) else v) for k, v in x.items()} for x in case['deliveries'][:6]]
    return d


# ---------------------------------------------------------------------------
# execution

_loader_cache = {}


LOADER_NAME = ['SafeLoader']       # set per case by execute(): Safe / Full / Base loader of the back-end


def loader_class(yaml, backend, block):
    name = LOADER_NAME[0]
    key = (backend, block, name)
    if key in _loader_cache:
        return _loader_cache[key]
    if backend == 'c':
        cls = getattr(yaml, 'C' + name)
    elif block is None:
        cls = getattr(yaml, name)
    else:
        base = getattr(yaml, name)

        class BlockLoader(base):
            _block = block

            def update_raw(self, size=None):
                return base.update_raw(self, self._block)
        cls = BlockLoader
    _loader_cache[key] = cls
    return cls


def canon_item(api, it, shift):
    if api in ('scan', 'parse'):
        return observe.item(it, shift, with_encoding=True)
    if api == 'compose_all':
        return observe.node(it, shift)
    return observe.value(it)


# str() of the error of the last delivery: the message a user sees.  It legitimately differs between in-memory input
# (source name, snippet) and streams, but not between two chunkings of the same stream.
LAST_ERROR_TEXT = [None]
LAST_ERROR_SNIPPET = [None]


def make_source(yaml, data, d, backend):
    """(source object handed to the library, loader class, read log, SimReader or None)."""
    L = loader_class(yaml, backend, d.get('block') if d.get('via') == 'sim' else None)
    log = []
    stream = None
    if d['via'] == 'memory':
        src = data
    elif d['via'] == 'io':
        src = io.StringIO(data) if isinstance(data, str) else io.BytesIO(data)
    elif d['via'] == 'wrapper':
        # what open(path, encoding=codec, newline='') gives: the codec is whatever can represent the text
        codec = 'utf-8'
        for c in ('latin-1', 'cp1251', 'koi8-r', 'cp1252', 'utf-16'):
            try:
                data.encode(c)
                codec = c
                break
            except UnicodeEncodeError:
                continue
        src = io.TextIOWrapper(io.BytesIO(data.encode(codec)), encoding=codec, newline='')
    else:
        stream = SimReader(data, d.get('sizes') or (), d.get('then'), log=log)
        src = stream
    return src, L, log, stream


def classify(yaml, exc, shift):
    """(canonical error, str(exc) or None, snippet or None) of an exception that ended a delivery."""
    text = snippet = None
    if isinstance(exc, yaml.YAMLError):
        err = observe.error(exc, shift)
        try:
            text = str(exc)
        except Exception as exc2:
            text = 'str() failed: %r' % (exc2,)
        pm = getattr(exc, 'problem_mark', None)
        try:
            snippet = pm.get_snippet() if pm is not None else None
        except Exception as exc2:
            snippet = 'get_snippet() failed: %r' % (exc2,)
    elif isinstance(exc, ReadBudgetExceeded):
        err = {'class': 'ReadBudgetExceeded', 'args': [str(exc)]}
    elif isinstance(exc, RecursionError):
        err = {'class': 'RecursionError'}
    else:
        err = observe.error(exc, shift)
        err['non_yaml'] = True
    return err, text, snippet


def deliver(yaml, data, d, api, backend, shift):
    """Run one delivery.  Returns (items, err, readlog, stream)."""
    src, L, log, stream = make_source(yaml, data, d, backend)
    items, err = [], None
    LAST_ERROR_TEXT[0] = None
    LAST_ERROR_SNIPPET[0] = None
    try:
        for it in getattr(yaml, api)(src, Loader=L):
            items.append(canon_item(api, it, shift))
    except kernel.Hang:
        raise
    except Exception as exc:
        err, LAST_ERROR_TEXT[0], LAST_ERROR_SNIPPET[0] = classify(yaml, exc, shift)
    return items, err, [(e[3], e[4]) for e in log], stream


def deliver_interleaved(yaml, text, dels, api, backend, salt):
    """All deliveries of a case alive at the same time: one generator per delivery, advanced a few items at a time in an
    order decided by a seeded scheduler (two files compared side by side; a reader per connection).  What each delivery
    observes must not depend on the other readers that exist.  Returns one (items, err, readlog, error text, snippet) per
    delivery, in the order of `dels`."""
    import random
    rr = random.Random(kernel.H(salt, 'interleave'))
    tasks = []
    for d in dels:
        family = d['form']
        data = encode(text, family)
        shift = 1 if (backend == 'py' and family in ('utf8bom', 'utf16le', 'utf16be')) else 0
        src, L, log, _ = make_source(yaml, data, d, backend)
        tasks.append({'gen': getattr(yaml, api)(src, Loader=L), 'shift': shift, 'log': log, 'items': [], 'err': None, 'text': None, 'snip': None, 'done': False})
    live = list(range(len(tasks)))
    while live:
        i = live[rr.randrange(len(live))]
        t = tasks[i]
        for _ in range(rr.choice([1, 1, 2, 3, 7])):
            try:
                t['items'].append(canon_item(api, next(t['gen']), t['shift']))
            except StopIteration:
                t['done'] = True
            except kernel.Hang:
                raise
            except Exception as exc:
                t['err'], t['text'], t['snip'] = classify(yaml, exc, t['shift'])
                t['done'] = True
            if t['done']:
                live.remove(i)
                break
    return [(t['items'], t['err'], [(e[3], e[4]) for e in t['log']], t['text'], t['snip']) for t in tasks]


def reader_ops(yaml, src, block, ops, shift):
    """Drive yaml.reader.Reader directly; observation = result of every operation plus
    (index, line, column) after it.  The BOM (kept as U+FEFF by the reader) is skipped first,
    as the scanner does."""
    base = yaml.reader.Reader
    if block is not None:
        class BlockReader(base):
            def update_raw(self, size=None):
                return base.update_raw(self, block)
        cls = BlockReader
    else:
        cls = base
    trace = []
    try:
        rd = cls(src)
        if shift and rd.peek() == '\ufeff':
            rd.forward()
        for op, arg in ops:
            if op == 'forward':
                rd.forward(arg)
                res = None
            elif op == 'peek':
                res = rd.peek(arg)
            else:
                res = rd.prefix(arg)
            trace.append([op, arg, res, rd.index - shift, rd.line, rd.column])
    except yaml.YAMLError as exc:
        trace.append(['error', observe.error(exc)])
    except Exception as exc:
        trace.append(['exception', type(exc).__name__, repr(exc)[:200]])
    return trace


def strip_encoding(items, api):
    if api in ('scan', 'parse') and items and items[0][0] in ('StreamStartToken', 'StreamStartEvent'):
        first = [items[0][0], {k: v for k, v in items[0][1].items() if k != 'encoding'}] + items[0][2:]
        return [first] + items[1:]
    return items


def first_diff(a, b):
    for i, (x, y) in enumerate(zip(a, b)):
        if x != y:
            return i, x, y
    if len(a) != len(b):
        i = min(len(a), len(b))
        return i, (a[i] if i < len(a) else '<end>'), (b[i] if i < len(b) else '<end>')
    return None


def probes_for(data, family, readlog, backend, block):
    """Reach probes computed from the piece boundaries actually produced."""
    p = {}
    n = len(data)
    off = 0
    blk = block or (4096 if backend == 'py' else 16384)
    nonfull = False
    for req, got in readlog:
        if got == 'RAISE':
            continue
        if got < req and got > 0 and off + got < n:
            nonfull = True
        off += got
        if got == 0:
            p['eof_piece_len0'] = p.get('eof_piece_len0', 0) + 1
        if not (0 < off < n):
            continue
        if family == 'text':
            if data[off - 1] == '\r' and data[off] == '\n':
                p['cut_between_CR_LF'] = p.get('cut_between_CR_LF', 0) + 1
        elif family in ('utf8', 'utf8bom'):
            if 0x80 <= data[off] <= 0xBF:
                p['cut_inside_utf8_sequence'] = p.get('cut_inside_utf8_sequence', 0) + 1
            if data[off - 1] == 13 and data[off] == 10:
                p['cut_between_CR_LF'] = p.get('cut_between_CR_LF', 0) + 1
            if family == 'utf8bom' and off < 3:
                p['cut_inside_BOM'] = p.get('cut_inside_BOM', 0) + 1
        else:
            le = family == 'utf16le'
            if off % 2:
                p['cut_inside_utf16_code_unit'] = p.get('cut_inside_utf16_code_unit', 0) + 1
            if off < 2:
                p['cut_inside_BOM'] = p.get('cut_inside_BOM', 0) + 1
            base = off - (off % 2)
            if base >= 2 and base + 1 < n:
                prev_hi = data[base - 1] if le else data[base - 2]
                if 0xD8 <= prev_hi <= 0xDB and off % 2 == 0:
                    p['cut_inside_surrogate_pair'] = p.get('cut_inside_surrogate_pair', 0) + 1
                cr = data[base - 2:base] == '\r'.encode(ENC[family]) and data[base:base + 2] == '\n'.encode(ENC[family])
                if cr and off % 2 == 0:
                    p['cut_between_CR_LF'] = p.get('cut_between_CR_LF', 0) + 1
        if off == 1:
            p['cut_after_first_unit'] = p.get('cut_after_first_unit', 0) + 1
        if blk >= 64 and off % blk == 0:
            p['cut_at_block_multiple'] = p.get('cut_at_block_multiple', 0) + 1
    if len([1 for req, got in readlog if got != 'RAISE' and got > 0]) >= 2:
        p['refills_ge_2'] = 1
    return p, nonfull


def execute(case):
    import yaml
    api, backend, text = case['api'], case['backend'], case['text']
    LOADER_NAME[0] = case.get('loader') or 'SafeLoader'
    out = {'violations': [], 'evals': 0, 'probes': {}, 'faults': {}, 'sigs': [], 'extra': {}}
    if backend == 'c' and not getattr(yaml, '__with_libyaml__', False):
        out['extra']['c_backend_not_run'] = 1
        out['log'] = 'no-c'
        return out
    if text.startswith('\ufeff'):
        # a text that itself begins with U+FEFF already carries its byte order mark: encoding it "with BOM"
        # would deliver two (a different document), so such a case says nothing about C07 (only the
        # shrinker can produce it; generated texts never start with U+FEFF)
        out['extra']['text_starts_with_bom_not_a_case'] = 1
        out['log'] = 'bom-text'
        return out
    logparts = []
    tdig = observe.digest(text)

    def add_probes(p):
        for k, v in p.items():
            out['probes'][k] = out['probes'].get(k, 0) + v

    def note(d, family, data, readlog):
        p, nonfull = probes_for(data, family, readlog, backend, d.get('block'))
        add_probes(p)
        if d.get('via') == 'sim' and (nonfull or d.get('block')):
            out['sigs'].append(observe.digest([tdig, api, backend, family, d.get('block'), readlog]))

    if case['mode'] == 'splits':
        family = case['family']
        data = encode(text, family)
        shift = 1 if (backend == 'py' and family in ('utf8bom', 'utf16le', 'utf16be')) else 0
        ref_items, ref_err, _, _ = deliver(yaml, text, {'via': 'memory'}, api, backend, 0)
        ref_items = strip_encoding(ref_items, api)
        out['evals'] += 1
        for k in range(1, len(data)):
            d = {'via': 'sim', 'sizes': [k], 'then': None, 'block': case.get('block')}
            items, err, readlog, _ = deliver(yaml, data, d, api, backend, shift)
            out['evals'] += 1
            note(d, family, data, readlog)
            items = strip_encoding(items, api)
            logparts.append([k, observe.digest([items, err])])
            v = compare_clean(ref_items, ref_err, items, err, {'split_at': k, 'family': family, 'block': case.get('block')})
            if v:
                out['violations'].append(v)
                break
        out['extra']['exhaustive_split_texts'] = 1
        out['extra']['exhaustive_split_deliveries'] = max(0, len(data) - 1)
        out['log'] = observe.digest(logparts)
        out['sample'] = describe(case)
        return out

    if case['mode'] == 'reader':
        ref = reader_ops(yaml, text, None, case['ops'], 0)
        out['evals'] += 1
        for i, d in enumerate(case['deliveries']):
            family = d['form']
            data = encode(text, family)
            log = []
            stream = SimReader(data, d.get('sizes') or (), d.get('then'), log=log)
            shift = 1 if family in ('utf8bom', 'utf16le', 'utf16be') else 0
            got = reader_ops(yaml, stream, d.get('block'), case['ops'], shift)
            readlog = [(e[3], e[4]) for e in log]
            out['evals'] += 1
            note(d, family, data, readlog)
            logparts.append([i, observe.digest(got), readlog])
            if got != ref:
                out['violations'].append({'class': 'reader-ops-differ', 'detail': {
                    'delivery': i, 'form': d, 'diff': first_diff(ref, got)}})
                break
        out['log'] = observe.digest(logparts)
        out['sample'] = describe(case)
        return out

    if case['mode'] == 'clean':
        ref = None
        fam_ref = {}
        msg_ref = {}
        snip_ref = {}
        together = None
        if case.get('interleave') and len(case['deliveries']) > 1:
            together = deliver_interleaved(yaml, text, case['deliveries'], api, backend, tdig)
            out['probes']['cases_with_all_deliveries_alive_at_once'] = 1
        for i, d in enumerate(case['deliveries']):
            family = d['form']
            data = encode(text, family)
            shift = 1 if (backend == 'py' and family in ('utf8bom', 'utf16le', 'utf16be')) else 0
            if together is not None:
                items, err, readlog, LAST_ERROR_TEXT[0], LAST_ERROR_SNIPPET[0] = together[i]
            else:
                items, err, readlog, _ = deliver(yaml, data, d, api, backend, shift)
            out['evals'] += 1
            if err is not None and d['via'] == 'memory' and family in ('text', 'utf8') and isinstance(err.get('problem_mark'), list):
                # the quoted source line of an in-memory document: the same for the str and for its UTF-8 bytes
                snip_ref[family] = (LAST_ERROR_SNIPPET[0], err)
                if len(snip_ref) == 2 and snip_ref['text'][1] == snip_ref['utf8'][1] and snip_ref['text'][0] != snip_ref['utf8'][0]:
                    out['violations'].append({'class': 'error-snippet-depends-on-delivery-form', 'detail': {
                        'str': snip_ref['text'][0], 'utf8_bytes': snip_ref['utf8'][0], 'error': err}})
                    break
            if err is not None and d['via'] in ('sim', 'io') and LAST_ERROR_TEXT[0] is not None:
                key = family
                if key in msg_ref and msg_ref[key][0] != LAST_ERROR_TEXT[0] and msg_ref[key][1] == err:
                    out['violations'].append({'class': 'error-message-depends-on-chunking', 'detail': {
                        'delivery': i, 'form': d, 'message': LAST_ERROR_TEXT[0][:600], 'other_chunking': msg_ref[key][0][:600]}})
                    break
                msg_ref.setdefault(key, (LAST_ERROR_TEXT[0], err))
                out['probes']['error_messages_compared_across_chunkings'] = out['probes'].get('error_messages_compared_across_chunkings', 0) + 1
            note(d, family, data, readlog)
            logparts.append([i, observe.digest([items, err]), readlog])
            if ref is None:
                ref = (strip_encoding(items, api), err)
            v = compare_clean(ref[0], ref[1], strip_encoding(items, api), err, {'delivery': i, 'form': d})
            if v:
                out['violations'].append(v)
                break
            # StreamStart.encoding: identical within one encoding family
            if api in ('scan', 'parse') and items:
                enc = items[0][1].get('encoding')
                if family in fam_ref and fam_ref[family] != enc:
                    out['violations'].append({'class': 'encoding-differs-within-family',
                                              'detail': {'delivery': i, 'form': d, 'got': enc, 'expected': fam_ref[family]}})
                    break
                fam_ref.setdefault(family, enc)
        out['log'] = observe.digest(logparts)
        out['sample'] = describe(case)
        return out

    # --- one reader-level defect
    defect = case['defect']
    groups = {}
    for i, d in enumerate(case['deliveries']):
        groups.setdefault(d['form'], []).append((i, d))
    for family, dels in groups.items():
        data, pos_py, c_lo, c_hi = build_defect(text, defect, family)
        results = []
        for i, d in dels:
            if d.get('prime'):
                clean_defect = dict(defect, kind='nonprintable', char='x', second=None) if defect['kind'] == 'nonprintable' else None
                # the two halves exist before the twin does, so that after the twin is released exactly ONE object of its size
                # is allocated: the fresh copy of the defective text (a + b), which then very likely gets the twin's address
                half = len(data) // 2
                a, b = data[:half], data[half:]
                if clean_defect is not None and half:
                    twin = build_defect(text, clean_defect, family)[0]
                    if len(twin) == len(data):
                        try:
                            for _ in getattr(yaml, api)(twin, Loader=loader_class(yaml, backend, None)):
                                pass
                        except kernel.Hang:
                            raise
                        except Exception:
                            pass        # whatever the clean twin does (e.g. '!!int x' -> ValueError in a constructor) is not the subject here
                        _ = None
                        out['probes']['primed_in_memory_deliveries'] = out['probes'].get('primed_in_memory_deliveries', 0) + 1
                    del twin
                fresh = a + b
                items, err, readlog, _ = deliver(yaml, fresh, d, api, backend, 0)
                del fresh
            else:
                items, err, readlog, _ = deliver(yaml, data, d, api, backend, 0)
            out['evals'] += 1
            note(d, family, data, readlog)
            logparts.append([i, observe.digest([items, err]), readlog])
            results.append((i, d, items, err))
            out['faults'][defect['kind'] + ':' + str(defect.get('bad') or 'U+%04X' % ord(defect['char']))] = \
                out['faults'].get(defect['kind'] + ':' + str(defect.get('bad') or 'U+%04X' % ord(defect['char'])), 0) + 1
        lazy = [x for x in results if x[1].get('lazy')][0]
        lazy_items, lazy_err = lazy[2], lazy[3]
        sigs = set()
        for i, d, items, err in results:
            where = {'delivery': i, 'form': d, 'defect': defect}
            if err is None:
                out['violations'].append({'class': 'reader-defect-not-reported', 'detail': dict(where, items=len(items))})
                break
            if err['class'] in ('ReadBudgetExceeded',):
                out['violations'].append({'class': 'read-budget-exceeded', 'detail': dict(where, error=err)})
                break
            is_reader = err['class'] == 'yaml.reader.ReaderError'
            if is_reader:
                sigs.add(observe.jdump([err['position'], err['character'], err['reason']]))
                pos = err['position']
                ok = (pos == pos_py) if backend == 'py' else (c_lo <= pos <= c_hi)
                if not ok:
                    out['violations'].append({'class': 'reader-error-wrong-offset', 'detail': dict(
                        where, error=err, expected=(pos_py if backend == 'py' else [c_lo, c_hi]))})
                    break
                out['extra']['reader_errors_checked'] = out['extra'].get('reader_errors_checked', 0) + 1
            if items == lazy_items and err == lazy_err:
                continue
            # K1 relaxation: the reader error of the right signature pre-empts items/errors located before it
            if is_reader and items == lazy_items[:len(items)]:
                out['violations'].append({'class': 'K1-eager-block-validation', 'detail': dict(
                    where, items_delivered=len(items), lazy_items=len(lazy_items), lazy_error=lazy_err, error=err)})
                continue
            out['violations'].append({'class': 'defect-delivery-differs', 'detail': dict(
                where, diff=first_diff(lazy_items, items), error=err, lazy_error=lazy_err)})
            break
        if len(sigs) > 1:
            out['violations'].append({'class': 'reader-error-depends-on-chunking', 'detail': {
                'family': family, 'defect': defect, 'signatures': sorted(sigs)}})
        # keep at most one K1 record per case
    k1 = [v for v in out['violations'] if v['class'].startswith('K1-')]
    rest = [v for v in out['violations'] if not v['class'].startswith('K1-')]
    out['violations'] = rest + k1[:1]
    out['log'] = observe.digest(logparts)
    out['sample'] = describe(case)
    return out


def compare_clean(ref_items, ref_err, items, err, where):
    if err is not None and err['class'] == 'ReadBudgetExceeded':
        return {'class': 'read-budget-exceeded', 'detail': dict(where, error=err, reference_error=ref_err)}
    if items != ref_items:
        return {'class': 'items-differ', 'detail': dict(where, diff=first_diff(ref_items, items), error=err, reference_error=ref_err)}
    if err != ref_err:
        a, b = err, ref_err
        if a and b and a.get('class') == b.get('class') == 'yaml.reader.ReaderError':
            a = {k: v for k, v in a.items() if k not in ('position', 'encoding')}
            b = {k: v for k, v in b.items() if k not in ('position', 'encoding')}
            if a == b:
                return None
        return {'class': 'error-differs', 'detail': dict(where, error=err, reference_error=ref_err)}
    return None


# ---------------------------------------------------------------------------
# minimisation

def shrink(case):
    if case['mode'] != 'splits' and len(case.get('deliveries', [])) > 1:
        dels = case['deliveries']
        keep_first = 1 if case['mode'] == 'clean' else 0
        for cand in shr.list_candidates(dels[keep_first:], 1):
            if case['mode'] == 'defect':
                fams = {d['form'] for d in cand}
                if not all(any(x.get('lazy') and x['form'] == f for x in cand) for f in fams):
                    continue
            yield dict(case, deliveries=dels[:keep_first] + cand)
    for t in shr.text_candidates(case['text']):
        c = dict(case, text=t)
        if case.get('defect'):
            if case['defect']['at'] > len(t):
                c['defect'] = dict(case['defect'], at=len(t))
        yield c
    if case.get('defect') and case['defect']['at'] > 0:
        for a in shr.int_candidates(case['defect']['at']):
            yield dict(case, defect=dict(case['defect'], at=a))
    if case.get('interleave'):
        yield {k: v for k, v in case.items() if k != 'interleave'}
    for i, d in enumerate(case.get('deliveries', [])):
        if d.get('via') == 'sim' and d.get('sizes'):
            for s in shr.sizes_candidates(d['sizes']):
                nd = list(case['deliveries'])
                nd[i] = dict(d, sizes=s)
                yield dict(case, deliveries=nd)
        if d.get('block') and not d.get('lazy'):
            nd = list(case['deliveries'])
            nd[i] = dict(d, block=None)
            yield dict(case, deliveries=nd)
