"""Canonical, JSON-able observations of tokens, events, node graphs, object graphs,
exceptions and of the library's global state.  Nothing here depends on hash
randomisation, object addresses, the stream name or a clock."""
import datetime
import hashlib
import json
import math
import re
import types


def jdump(x):
    return json.dumps(x, sort_keys=True, ensure_ascii=True, separators=(',', ':'), default=repr)


def digest(x):
    return hashlib.sha256(jdump(x).encode('ascii')).hexdigest()[:16]


def mark(m, shift=0):
    """(line, column, index); shift = number of BOM characters the form added and the
    back-end counts in `index` (never in column).  Index 0 is before the BOM."""
    if m is None:
        return None
    idx = m.index
    if shift and idx >= shift:
        idx -= shift
    return [m.line, m.column, idx]


def _plain(v):
    if isinstance(v, (str, int, float, bool)) or v is None:
        return v
    if isinstance(v, bytes):
        return {'bytes': v.hex()}
    if isinstance(v, (tuple, list)):
        return [_plain(x) for x in v]
    if isinstance(v, dict):
        return {'dict': sorted(([_plain(k), _plain(x)] for k, x in v.items()), key=jdump)}
    return {'repr': type(v).__name__}


def item(obj, shift=0, with_encoding=False):
    """A token or an event."""
    d = {}
    for k, v in vars(obj).items():
        if k in ('start_mark', 'end_mark'):
            continue
        if k == 'encoding' and not with_encoding:
            continue
        d[k] = _plain(v)
    return [type(obj).__name__, d, mark(getattr(obj, 'start_mark', None), shift),
            mark(getattr(obj, 'end_mark', None), shift)]


def node(root, shift=0):
    """Node graph with identity numbered by first visit (alias structure is part of the value)."""
    import yaml
    seen = {}
    out = []

    def walk(n):
        if id(n) in seen:
            return {'ref': seen[id(n)]}
        seen[id(n)] = len(seen)
        head = [type(n).__name__, n.tag, mark(n.start_mark, shift), mark(n.end_mark, shift)]
        if isinstance(n, yaml.ScalarNode):
            return head + [n.value, n.style]
        if isinstance(n, yaml.SequenceNode):
            return head + [[walk(c) for c in n.value], n.flow_style]
        if isinstance(n, yaml.MappingNode):
            return head + [[[walk(k), walk(v)] for k, v in n.value], n.flow_style]
        return head + ['?']
    if root is None:
        return None
    return walk(root)


def value(root, ordered=True, tuple_as_list=False):
    """Type-strict canonical form of an object graph; containers numbered by first visit
    (sharing and cycles are part of the value); sets sorted by the canonical form.
    ordered=False: the pairs of a dict are visited in the order of their keys' canonical
    forms instead of iteration order (equality of mappings as mathematical objects)."""
    seen = {}

    def walk(v):
        t = type(v)
        if v is None or t is bool:
            return v
        if t is int:
            return {'int': str(v)}
        if t is float:
            if math.isnan(v):
                return {'float': 'nan'}
            return {'float': repr(v)}
        if t is str:
            return v
        if t is bytes:
            return {'bytes': v.hex()}
        if t is complex:
            return {'complex': repr(v)}
        if t is datetime.datetime or t is datetime.date:
            return {t.__name__: v.isoformat(), 'tz': repr(getattr(v, 'tzinfo', None))}
        if isinstance(v, (list, tuple, dict, set, frozenset)) or hasattr(v, '__dict__'):
            if id(v) in seen:
                return {'ref': seen[id(v)]}
            seen[id(v)] = len(seen)
            n = seen[id(v)]
            if isinstance(v, (list, tuple)):
                return {('list' if tuple_as_list else t.__name__): [walk(x) for x in v], 'id': n}
            if isinstance(v, dict):
                items = list(v.items())
                if not ordered:
                    items.sort(key=lambda kv: jdump(value(kv[0], tuple_as_list=tuple_as_list)))
                return {t.__name__: [[walk(k), walk(x)] for k, x in items], 'id': n}
            if isinstance(v, (set, frozenset)):
                return {t.__name__: sorted((walk(x) for x in v), key=jdump), 'id': n}
            if isinstance(v, (types.FunctionType, types.BuiltinFunctionType, type, types.ModuleType)):
                return {'named': getattr(v, '__qualname__', getattr(v, '__name__', '?'))}
            return {'obj': t.__module__ + '.' + t.__qualname__, 'id': n,
                    'state': [[k, walk(x)] for k, x in sorted(vars(v).items())]}
        return {'other': t.__name__, 'repr': repr(v)}
    return walk(root)


def error(exc, shift=0):
    """class, context, problem, note, marks; ReaderError: position, character, reason,
    encoding.  str(exc) is not used (embeds the stream name / a snippet)."""
    import yaml
    d = {'class': type(exc).__module__ + '.' + type(exc).__qualname__}
    if isinstance(exc, yaml.MarkedYAMLError):
        d.update(context=exc.context, problem=exc.problem, note=exc.note,
                 context_mark=mark(exc.context_mark, shift),
                 problem_mark=mark(exc.problem_mark, shift))
    elif isinstance(exc, yaml.reader.ReaderError):
        ch = exc.character
        if isinstance(ch, bytes):
            ch = {'bytes': ch.hex()}
        d.update(position=exc.position, character=ch, reason=exc.reason, encoding=exc.encoding)
    elif isinstance(exc, yaml.YAMLError):
        d.update(args=[_plain(a) for a in exc.args])
    else:
        d.update(args=[repr(a)[:200] for a in getattr(exc, 'args', ())])
    return d


def is_yaml_error(exc):
    import yaml
    return isinstance(exc, yaml.YAMLError)


# ---------------------------------------------------------------------------
# global state of the yaml package

_SKIP_MODULE_KEYS = {'__builtins__', '__cached__', '__loader__', '__spec__', '__doc__',
                     '__file__', '__path__', '__package__', '__name__'}


def _state_value(v, depth=0):
    if isinstance(v, (str, int, float, bool, bytes)) or v is None:
        return ['v', repr(v)]
    if isinstance(v, re.Pattern):
        return ['re', v.pattern, v.flags, id(v)]
    if isinstance(v, dict):
        if depth > 3:
            return ['dict-id', id(v)]
        return ['dict', [[_state_key(k), _state_value(x, depth + 1)] for k, x in v.items()]]
    if isinstance(v, (list, tuple)):
        if depth > 3:
            return ['seq-id', id(v)]
        return [type(v).__name__, [_state_value(x, depth + 1) for x in v]]
    if isinstance(v, (set, frozenset)):
        return ['set', sorted(jdump(_state_value(x, depth + 1)) for x in v)]
    # functions, classes, modules, bound methods, descriptors: identity
    return ['id', type(v).__name__, id(v)]


def _state_key(k):
    if isinstance(k, (str, int, float, bool, bytes)) or k is None:
        return repr(k)
    if isinstance(k, tuple):
        return '(' + ','.join(_state_key(x) for x in k) + ')'
    return '%s@%d' % (type(k).__name__, id(k))


def global_state():
    """name -> value digest for every module namespace entry and every class attribute of
    the yaml package.  Containers by value (order included), functions / classes /
    compiled regexes by identity.  Valid within one process only (uses id())."""
    import sys
    snap = {}
    for mname in sorted(sys.modules):
        if mname != 'yaml' and not mname.startswith('yaml.'):
            continue
        mod = sys.modules[mname]
        if mod is None:
            continue
        for k, v in list(vars(mod).items()):
            if k in _SKIP_MODULE_KEYS:
                continue
            snap[mname + ':' + k] = jdump(_state_value(v))
            if isinstance(v, type) and getattr(v, '__module__', '').startswith('yaml'):
                for ak, av in list(vars(v).items()):
                    if ak in ('__dict__', '__weakref__', '__doc__', '__module__'):
                        continue
                    snap['%s:%s.%s' % (v.__module__, v.__qualname__, ak)] = jdump(_state_value(av))
        # function defaults are per-process mutable state too (a memo in a mutable default argument)
        for k, v in list(vars(mod).items()):
            fns = []
            if isinstance(v, types.FunctionType) and getattr(v, '__module__', '') == mname:
                fns.append((k, v))
            elif isinstance(v, type) and getattr(v, '__module__', '') == mname:
                for ak, av in list(vars(v).items()):
                    f = getattr(av, '__func__', av)
                    if isinstance(f, types.FunctionType):
                        fns.append(('%s.%s' % (k, ak), f))
            for name, f in fns:
                if f.__defaults__ and any(isinstance(d, (dict, list, set)) for d in f.__defaults__):
                    snap['%s:%s.__defaults__' % (mname, name)] = jdump([_state_value(d) for d in f.__defaults__])
                if f.__kwdefaults__ and any(isinstance(d, (dict, list, set)) for d in f.__kwdefaults__.values()):
                    snap['%s:%s.__kwdefaults__' % (mname, name)] = jdump(sorted((k2, _state_value(d)) for k2, d in f.__kwdefaults__.items()))
    snap.update(environment_state())
    return snap


def environment_state():
    """Interpreter-global settings that a library call must leave as it found them (they are not in
    the yaml package, but a later call - of the library or of anything else - observes them)."""
    import decimal
    import gc
    import linecache
    import locale
    import os
    import signal
    import sys
    import warnings
    env = {
        'env:sys.getrecursionlimit': sys.getrecursionlimit(),
        'env:sys.getswitchinterval': sys.getswitchinterval(),
        'env:gc.isenabled': gc.isenabled(),
        'env:gc.get_threshold': list(gc.get_threshold()),
        'env:warnings.filters': [[f[0], str(f[1]), getattr(f[2], '__name__', str(f[2])), str(f[3]), f[4]] for f in warnings.filters],
        'env:sys.gettrace': repr(sys.gettrace()),
        'env:sys.getprofile': repr(sys.getprofile()),
        'env:os.getcwd': os.getcwd(),
        'env:os.environ': sorted(os.environ.items()),
        'env:sys.path': list(sys.path),
        'env:locale': list(locale.getlocale()),
        'env:decimal.prec': decimal.getcontext().prec,
        'env:sys.stdio': [id(sys.stdin), id(sys.stdout), id(sys.stderr)],
        'env:signal.SIGINT': repr(signal.getsignal(signal.SIGINT)),
        'env:sys.excepthook': id(sys.excepthook),
        'env:sys.displayhook': id(sys.displayhook),
        'env:linecache.cache': sorted(k for k in linecache.cache if not str(k).startswith('<')),
        'env:int_max_str_digits': sys.get_int_max_str_digits() if hasattr(sys, 'get_int_max_str_digits') else None,
    }
    return {k: jdump(v) for k, v in env.items()}


def state_diff(a, b):
    out = []
    for k in sorted(set(a) | set(b)):
        if a.get(k) != b.get(k):
            out.append(k)
    return out
