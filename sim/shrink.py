"""Candidate generators for delta debugging (all deterministic, largest reductions first)."""


def list_candidates(lst, min_len=0):
    """Remove contiguous chunks: halves, quarters, ..., single elements."""
    n = len(lst)
    if n <= min_len:
        return
    size = n // 2 if n > 1 else 1
    seen = set()
    while size >= 1:
        for start in range(0, n, size):
            cand = lst[:start] + lst[start + size:]
            if len(cand) < min_len:
                continue
            key = (start, size)
            if key in seen:
                continue
            seen.add(key)
            yield cand
        if size == 1:
            break
        size //= 2


def text_candidates(text):
    """Shorter texts: drop line groups, then character chunks (bounded number of candidates)."""
    lines = text.splitlines(keepends=True)
    if len(lines) > 1:
        for cand in list_candidates(lines, 0):
            yield ''.join(cand)
    n = len(text)
    if n <= 400:
        chars = list(text)
        count = 0
        for cand in list_candidates(chars, 0):
            count += 1
            if count > 600:
                break
            yield ''.join(cand)
    else:
        size = n // 2
        while size >= 32:
            for start in range(0, n, size):
                yield text[:start] + text[start + size:]
            size //= 2


def bytes_candidates(data):
    for cand in text_candidates(data.decode('latin-1')):
        yield cand.encode('latin-1')


def sizes_candidates(sizes):
    """Simpler read schedules: drop pieces, merge neighbours."""
    for cand in list_candidates(list(sizes), 0):
        yield cand
    for i in range(len(sizes) - 1):
        yield sizes[:i] + [sizes[i] + sizes[i + 1]] + sizes[i + 2:]


def int_candidates(v, floor=0):
    seen = set()
    for c in (floor, v // 2, v - 1):
        if floor <= c < v and c not in seen:
            seen.add(c)
            yield c
