"""Simulation kernel shared by all checks: seeds, watchdog, worker pool, verdicts,
minimisation, replay files, known findings, evidence, determinism self-test.

One integer decides everything: VERIF_SEED -> run seed s_i = H(VERIF_SEED, check, i)
-> named sub-streams rng(s_i, name).  Logging never draws from a PRNG or reads a clock.
"""
import collections
import contextlib
import faulthandler
import hashlib
import json
import multiprocessing
import multiprocessing.connection
import os
import random
import signal
import subprocess
import sys
import time
import traceback

from . import build
from . import observe

VERIF = build.VERIF
DEFAULT_SEED = 20260929
KNOWN_FILE = os.path.join(VERIF, 'known_findings.txt')
REPLAY_DIR = os.path.join(VERIF, 'replays')
EVIDENCE_DIR = os.path.join(VERIF, 'evidence')


# ---------------------------------------------------------------------------
# seeds

def H(*parts):
    s = '\x1f'.join(str(p) for p in parts).encode('utf-8')
    return int.from_bytes(hashlib.sha256(s).digest()[:8], 'big')


def rng(seed, name):
    return random.Random(H(seed, name))


def gen_case(mod, seed, idx, tier):
    """Run index -> case.  A check that enumerates part of its space by run index defines
    generate_indexed(idx, run_seed, tier); the others generate(run_seed, tier)."""
    s = H(seed, mod.PROPERTY, idx)
    if hasattr(mod, 'generate_indexed'):
        return mod.generate_indexed(idx, s, tier)
    return mod.generate(s, tier)


# ---------------------------------------------------------------------------
# watchdog (bounded liveness): SIGALRM raises inside the worker

class Hang(BaseException):
    pass


def _on_alarm(signum, frame):
    raise Hang('library call exceeded the watchdog')


# multiplier applied to per-call limits when a suspected hang is re-executed in an isolated
# process: a call that ends within 10x the limit on an otherwise idle process was slow, not hung
hang_scale = [1]


@contextlib.contextmanager
def watchdog(seconds):
    """Nestable: an inner watchdog (one library call) suspends the outer one (the whole case) and
    re-arms it with the time that is left when it ends."""
    old = signal.signal(signal.SIGALRM, _on_alarm)
    t0 = time.monotonic()
    remaining, _ = signal.setitimer(signal.ITIMER_REAL, seconds)
    try:
        yield
    finally:
        signal.setitimer(signal.ITIMER_REAL, 0)
        signal.signal(signal.SIGALRM, old)
        if remaining:
            signal.setitimer(signal.ITIMER_REAL, max(remaining - (time.monotonic() - t0), 0.01))


# ---------------------------------------------------------------------------
# known findings

def load_known():
    known, fixed = {}, []
    if os.path.exists(KNOWN_FILE):
        for line in open(KNOWN_FILE, encoding='utf-8'):
            line = line.strip()
            if line.startswith('known:'):
                fields = dict(f.split('=', 1) for f in line.split()[1:3] if '=' in f)
                if 'property' in fields and 'class' in fields:
                    known[(fields['property'], fields['class'])] = line[len('known:'):].strip()
            elif line.startswith('fixed:'):
                fixed.append(line)
    return known, fixed


# ---------------------------------------------------------------------------
# executing one case

def _library_marker(exc):
    """'LIBRARY-EXCEPTION <type> at <file:line>\n' if the innermost Python frame of the exception belongs to the
    library under test, else ''."""
    try:
        frames = traceback.extract_tb(exc.__traceback__)
        libdir = os.path.join(os.path.realpath(build.status()['lib']), 'yaml') + os.sep
        if frames and os.path.realpath(frames[-1].filename).startswith(libdir) and \
                not isinstance(exc, (KeyboardInterrupt, SystemExit, MemoryError)):
            return 'LIBRARY-EXCEPTION %s at %s:%d\n' % (type(exc).__name__, os.path.basename(frames[-1].filename), frames[-1].lineno)
    except Exception:
        pass
    return ''


def safe_execute(mod, case, limit=None):
    """Run mod.execute(case) under the per-case watchdog.  Returns an outcome dict.
    Exceptions escaping execute() are harness errors (library exceptions are
    observations and are handled inside execute)."""
    limit = limit or getattr(mod, 'CASE_TIMEOUT', 60)
    try:
        with watchdog(limit):
            out = mod.execute(case)
    except Hang:
        return {'violations': [{'class': 'hang', 'detail': 'case exceeded %ss' % limit}],
                'evals': 1, 'log': 'hang', 'sig': None}
    except BaseException as exc:
        # An exception that the check did not anticipate.  If it was raised by code of the library itself (innermost
        # Python frame under <lib>/yaml) while the check was using the library in a way that is valid on the unchanged
        # tree, the library is what misbehaved: reported as a violation with a replay file, not as a harness error.
        try:
            frames = traceback.extract_tb(exc.__traceback__)
            if _library_marker(exc):
                return {'violations': [{'class': 'unexpected-exception-from-library:' + type(exc).__name__, 'detail': {
                    'exception': repr(exc)[:300],
                    'raised_at': ['%s:%d %s' % (os.path.basename(f.filename), f.lineno, f.name) for f in frames[-4:]]}}],
                    'evals': 1, 'log': 'libexc:' + type(exc).__name__, 'sig': None}
            import re as _re
            m = _re.search(r'LIBRARY-EXCEPTION (\w+) at (\S+)', str(exc)) if isinstance(exc, RuntimeError) else None
            if m:
                # the same, raised inside a forked child (history / reference execution) and reported by the parent
                return {'violations': [{'class': 'unexpected-exception-from-library:' + m.group(1), 'detail': {
                    'raised_at': m.group(2), 'traceback_tail': str(exc)[-1200:]}}],
                    'evals': 1, 'log': 'libexc:' + m.group(1), 'sig': None}
        except Exception:
            pass
        return {'harness_error': traceback.format_exc(), 'violations': [], 'evals': 0,
                'log': 'error', 'sig': None}
    return out


def _worker_main(mod, tier, seed, conn):
    faulthandler.enable()
    signal.signal(signal.SIGINT, signal.SIG_IGN)
    build.activate()
    if hasattr(mod, 'worker_init'):
        mod.worker_init()
    while True:
        try:
            msg = conn.recv()
        except EOFError:
            return
        if msg is None:
            return
        for idx in msg:
            conn.send(('start', idx))
            case = gen_case(mod, seed, idx, tier)
            out = safe_execute(mod, case)
            conn.send(('done', idx, out))
        conn.send(('idle',))


class Pool:
    """N forked workers fed with batches of run indices.  A worker that dies (crash of the
    interpreter) or stays silent for HARD seconds (hang in C code) is detected and the
    in-flight run index reported."""

    HARD = 180

    def __init__(self, mod, tier, seed, jobs):
        self.mod, self.tier, self.seed = mod, tier, seed
        self.ctx = multiprocessing.get_context('fork')
        self.workers = {}
        for _ in range(jobs):
            self._spawn()

    def _spawn(self):
        parent, child = self.ctx.Pipe()
        p = self.ctx.Process(target=_worker_main, args=(self.mod, self.tier, self.seed, child), daemon=True)
        p.start()
        child.close()
        self.workers[parent] = {'proc': p, 'inflight': None, 'last': time.monotonic(), 'busy': False,
                                'queue': []}

    def run(self, indices, on_result, deadline=None, batch=8):
        indices = iter(indices)
        exhausted = False
        stopped_early = False
        while True:
            # feed idle workers
            for conn, w in list(self.workers.items()):
                if not w['busy'] and not exhausted:
                    if getattr(self, 'stop', False) or (deadline is not None and time.monotonic() > deadline):
                        exhausted = True
                        stopped_early = True
                        break
                    chunk = []
                    for idx in indices:
                        chunk.append(idx)
                        if len(chunk) >= batch:
                            break
                    if not chunk:
                        exhausted = True
                        break
                    conn.send(chunk)
                    w['busy'] = True
                    w['queue'] = list(chunk)
                    w['last'] = time.monotonic()
            busy = [c for c, w in self.workers.items() if w['busy']]
            if not busy:
                if exhausted:
                    break
                continue
            ready = multiprocessing.connection.wait(busy, timeout=5)
            now = time.monotonic()
            for conn in ready:
                w = self.workers[conn]
                try:
                    msg = conn.recv()
                except (EOFError, OSError):
                    self._dead(conn, on_result, 'crash')
                    continue
                w['last'] = now
                if msg[0] == 'start':
                    w['inflight'] = msg[1]
                elif msg[0] == 'done':
                    w['inflight'] = None
                    if msg[1] in w['queue']:
                        w['queue'].remove(msg[1])
                    on_result(msg[1], msg[2])
                elif msg[0] == 'idle':
                    w['busy'] = False
            for conn, w in list(self.workers.items()):
                if w['busy'] and now - w['last'] > self.HARD:
                    self._dead(conn, on_result, 'hang-hard')
        return stopped_early

    def _dead(self, conn, on_result, why):
        w = self.workers.pop(conn)
        p = w['proc']
        if p.is_alive():
            p.kill()
        p.join(10)
        idx = w['inflight']
        detail = '%s: worker exit code %r while executing run %r' % (why, p.exitcode, idx)
        if idx is not None:
            on_result(idx, {'violations': [{'class': why, 'detail': detail}], 'evals': 1,
                            'log': why, 'sig': None})
        rest = [i for i in w['queue'] if i != idx]
        try:
            conn.close()
        except OSError:
            pass
        self._spawn()
        if rest:
            # hand the unfinished part of the batch to the fresh worker
            for c, nw in self.workers.items():
                if not nw['busy']:
                    c.send(rest)
                    nw['busy'] = True
                    nw['queue'] = list(rest)
                    nw['last'] = time.monotonic()
                    break

    def close(self):
        for conn, w in self.workers.items():
            try:
                conn.send(None)
            except (OSError, BrokenPipeError):
                pass
        for conn, w in self.workers.items():
            w['proc'].join(5)
            if w['proc'].is_alive():
                w['proc'].kill()


# ---------------------------------------------------------------------------
# minimisation

def violation_classes(out, prop, known):
    """Split an outcome's anomalies into real violations and known findings."""
    real, kn = [], []
    for v in out.get('violations', []):
        if (prop, v['class']) in known:
            kn.append(v)
        else:
            real.append(v)
    return real, kn


def minimise(mod, case, vclass, known, budget_s=90, violation=None):
    """Greedy delta debugging: accept the first candidate of mod.shrink(case) that still
    shows a violation of the same class; stop at a fixed point or when the budget ends.
    Runs inside a forked child so that a crash/hang of a candidate cannot take the
    harness down."""
    if not hasattr(mod, 'shrink'):
        return case, 0
    ctx = multiprocessing.get_context('fork')
    parent, child = ctx.Pipe()

    def work():
        build.activate()
        if hasattr(mod, 'worker_init'):
            mod.worker_init()
        cur = case
        steps = 0
        t_end = time.monotonic() + budget_s
        if violation is not None and hasattr(mod, 'shrink_first'):
            cand = mod.shrink_first(case, violation)
            if cand is not None:
                out = safe_execute(mod, cand, limit=60)
                real, _ = violation_classes(out, mod.PROPERTY, known)
                if any(v['class'] == vclass for v in real):
                    cur = cand
                    steps += 1
                    child.send(('best', cur, steps))
        progress = True
        while progress and time.monotonic() < t_end:
            progress = False
            for cand in mod.shrink(cur):
                if time.monotonic() > t_end:
                    break
                out = safe_execute(mod, cand, limit=20)
                real, _ = violation_classes(out, mod.PROPERTY, known)
                if any(v['class'] == vclass for v in real):
                    cur = cand
                    steps += 1
                    progress = True
                    child.send(('best', cur, steps))
                    break
        child.send(('end', cur, steps))

    p = ctx.Process(target=work, daemon=True)
    p.start()
    child.close()
    best, steps = case, 0
    t_end = time.monotonic() + budget_s + 30
    while time.monotonic() < t_end:
        if parent.poll(1):
            try:
                msg = parent.recv()
            except (EOFError, OSError):
                break
            best, steps = msg[1], msg[2]
            if msg[0] == 'end':
                break
        elif not p.is_alive():
            break
    if p.is_alive():
        p.kill()
    p.join(5)
    return best, steps


def run_isolated(mod, case, limit=90, scale=1, perturb=0):
    """Execute one case in a forked child (used for replays and hang confirmation).  perturb > 0: the
    child first allocates (and keeps) a deterministic amount of junk, so that repeated attempts meet
    different allocator states (address reuse is the one thing the simulator does not own)."""
    ctx = multiprocessing.get_context('fork')
    parent, child = ctx.Pipe()

    def work():
        junk = [bytearray(37 * (i % 13 + 1)) for i in range(perturb * 997)]
        junk2 = [[i] for i in range(perturb * 211)]
        del junk[::3]
        hang_scale[0] = scale
        build.activate()
        if hasattr(mod, 'worker_init'):
            mod.worker_init()
        child.send(safe_execute(mod, case, limit=limit))

    p = ctx.Process(target=work, daemon=True)
    p.start()
    child.close()
    out = None
    if parent.poll(limit + 30):
        try:
            out = parent.recv()
        except (EOFError, OSError):
            out = None
    if out is None:
        alive = p.is_alive()
        if alive:
            p.kill()
        p.join(5)
        cls = 'hang-hard' if alive else 'crash'
        out = {'violations': [{'class': cls, 'detail': 'isolated execution: %s (exit %r)' % (cls, p.exitcode)}],
               'evals': 1, 'log': cls, 'sig': None}
    else:
        p.join(5)
    return out


def forked(fn, timeout=60):
    """Process-state seam: run fn() in a child forked from this (pristine) process and return
    ('ok', result) | ('error', traceback) | ('crash', exitcode) | ('hang', None).  The result
    travels back as pickle over a pipe; the child never returns into the caller's stack."""
    import pickle
    rfd, wfd = os.pipe()
    sys.stdout.flush()
    sys.stderr.flush()
    pid = os.fork()
    if pid == 0:
        code = 0
        try:
            os.close(rfd)
            signal.setitimer(signal.ITIMER_REAL, 0)
            signal.signal(signal.SIGALRM, signal.SIG_DFL)
            signal.alarm(int(timeout) + 5)      # hard stop for a hang in C code
            try:
                msg = ('ok', fn())
            except BaseException as exc:
                msg = ('error', _library_marker(exc) + traceback.format_exc())
            data = pickle.dumps(msg)
            with os.fdopen(wfd, 'wb') as f:
                f.write(data)
        except BaseException:
            code = 3
        finally:
            os._exit(code)
    os.close(wfd)
    chunks = []
    try:
        with os.fdopen(rfd, 'rb') as f:
            while True:
                b = f.read(1 << 16)
                if not b:
                    break
                chunks.append(b)
    except BaseException:
        try:
            os.kill(pid, signal.SIGKILL)
        except OSError:
            pass
        os.waitpid(pid, 0)
        raise
    _, status = os.waitpid(pid, 0)
    if os.WIFSIGNALED(status):
        sig = os.WTERMSIG(status)
        return ('hang', None) if sig == signal.SIGALRM else ('crash', -sig)
    if not chunks:
        return ('crash', os.WEXITSTATUS(status))
    return pickle.loads(b''.join(chunks))


# ---------------------------------------------------------------------------
# the driver

def write_replay(mod, seed, idx, case, violation, minimised_steps, original_case=None):
    os.makedirs(REPLAY_DIR, exist_ok=True)
    path = os.path.join(REPLAY_DIR, '%s-%s-%s.json' % (mod.PROPERTY, seed, idx))
    doc = {'property': mod.PROPERTY, 'seed': seed, 'run_index': idx, 'class': violation['class'],
           'detail': violation.get('detail'), 'minimisation_steps': minimised_steps, 'case': case}
    if original_case is not None and minimised_steps:
        doc['original_case'] = original_case
    with open(path, 'w') as f:
        json.dump(doc, f, indent=1, sort_keys=True, default=repr)
    return path


def replay(mod, path):
    build.activate()
    known, _ = load_known()
    doc = json.load(open(path))
    # a check may declare that some of its violations depend on state the simulator does not own (the
    # allocator: address reuse); such a replay is attempted several times and counts as reproduced if any
    # attempt shows the recorded class
    attempts = max(1, int(getattr(mod, 'REPLAY_ATTEMPTS', 1)))
    for attempt in range(attempts):
        out = run_isolated(mod, doc['case'], perturb=attempt)
        if out.get('harness_error'):
            break
        real, _kn = violation_classes(out, mod.PROPERTY, known)
        if any(v['class'] == doc['class'] for v in real):
            break
    if out.get('harness_error'):
        print('HARNESS-ERROR during replay:\n' + out['harness_error'])
        return 2
    real, kn = violation_classes(out, mod.PROPERTY, known)
    same = [v for v in real if v['class'] == doc['class']]
    if same:
        print('reproduced: class=%s detail=%s' % (same[0]['class'], observe.jdump(same[0].get('detail'))[:2000]))
        print('VIOLATION property=%s replay=%s' % (mod.PROPERTY, path))
        return 1
    if real:
        print('a different violation class shows on replay: %s' % real[0]['class'])
        print('VIOLATION property=%s replay=%s' % (mod.PROPERTY, path))
        return 1
    print('not reproduced (the recorded violation class %s does not occur on the current tree)' % doc['class'])
    return 0


def digests_fresh(mod, tier, seed, indices):
    """Re-execute some runs in a fresh interpreter under another PYTHONHASHSEED and
    return {idx: log digest}."""
    env = dict(os.environ)
    env['PYTHONHASHSEED'] = '4242'
    env['VERIF_SEED'] = str(seed)
    cmd = [sys.executable, '-B', os.path.join(VERIF, 'sim', 'main.py'), mod.PROPERTY,
           '--tier', tier, '--digest', ','.join(str(i) for i in indices)]
    r = subprocess.run(cmd, env=env, capture_output=True, text=True, timeout=900)
    if r.returncode != 0:
        raise RuntimeError('digest re-execution failed: %s\n%s' % (r.stdout[-2000:], r.stderr[-2000:]))
    line = [l for l in r.stdout.splitlines() if l.startswith('DIGESTS ')][-1]
    return {int(k): v for k, v in json.loads(line[len('DIGESTS '):]).items()}


def print_digests(mod, tier, seed, indices):
    build.activate()
    if hasattr(mod, 'worker_init'):
        mod.worker_init()
    res = {}
    for idx in indices:
        case = gen_case(mod, seed, idx, tier)
        out = safe_execute(mod, case)
        res[idx] = [out.get('log'), observe.digest(case)]
    print('DIGESTS ' + json.dumps(res))
    return 0


def run_check(mod, tier, seed, runs=None, jobs=None, wall=None, selfcheck=True, verbose=False, evidence=True):
    t0 = time.monotonic()
    st = build.prepare()
    yaml = build.activate()
    known, fixed = load_known()
    plan = mod.plan(tier)
    runs = runs or plan['runs']
    wall = wall or plan.get('wall')
    jobs = jobs or min(os.cpu_count() or 4, 16)
    prop = mod.PROPERTY

    agg = {'evals': 0, 'runs': 0, 'probes': collections.Counter(), 'faults': collections.Counter(),
           'sigs': set(), 'known': collections.Counter(), 'samples': [], 'harness_errors': [],
           'violations': [], 'digests': {}, 'extra': collections.Counter(), 'known_examples': {}, 'maxima': {}}

    k_self = plan.get('selfcheck', 8)
    rs = random.Random(H(seed, 'selfcheck'))
    picks = set([0, 1] + [rs.randrange(min(runs, 400)) for _ in range(k_self // 2)] +
                [rs.randrange(runs) for _ in range(k_self - k_self // 2)])
    SIG_CAP = 3000000
    dump_all = {} if os.environ.get('VERIF_DUMP_DIGESTS') else None

    def on_result(idx, out):
        agg['runs'] += 1
        agg['evals'] += out.get('evals', 1)
        if idx in picks:
            agg['digests'][idx] = out.get('log')
        if dump_all is not None:
            dump_all[idx] = out.get('log')
        for k, v in (out.get('probes') or {}).items():
            agg['probes'][k] += v
        for k, v in (out.get('faults') or {}).items():
            agg['faults'][k] += v
        for k, v in (out.get('extra') or {}).items():
            agg['extra'][k] += v
        for k, v in (out.get('maxima') or {}).items():
            if v > agg['maxima'].get(k, float('-inf')):
                agg['maxima'][k] = v
        if len(agg['sigs']) < SIG_CAP:
            for s in out.get('sigs') or ([out['sig']] if out.get('sig') else []):
                agg['sigs'].add(int(s[:12], 16))
        else:
            agg['extra']['distinct_counter_saturated'] = 1
        if out.get('sample') is not None and len(agg['samples']) < 6 and idx % 7 == 0:
            agg['samples'].append(out['sample'])
        if out.get('harness_error'):
            agg['harness_errors'].append((idx, out['harness_error']))
        real, kn = violation_classes(out, prop, known)
        for v in kn:
            agg['known'][v['class']] += 1
            agg['known_examples'].setdefault(v['class'], (idx, v.get('detail')))
        for v in real:
            agg['violations'].append((idx, v))
        if real and os.environ.get('VERIF_STOP_ON_VIOLATION'):
            pool.stop = True        # self-tests against changed trees: the first violation is enough

    pool = Pool(mod, tier, seed, jobs)
    deadline = (t0 + wall) if wall else None
    try:
        stopped_early = pool.run(range(runs), on_result, deadline=deadline, batch=plan.get('batch', 8))
    finally:
        pool.close()
    t_pool = time.monotonic() - t0

    if not agg['samples']:
        # make sure at least one explicit sample is present
        case = gen_case(mod, seed, 0, tier)
        agg['samples'].append(mod.describe(case) if hasattr(mod, 'describe') else case)

    exit_code = 0
    reported = []
    # --- violations: confirm hangs, minimise, write replay files
    by_class = collections.OrderedDict()
    for idx, v in sorted(agg['violations'], key=lambda t: t[0]):
        by_class.setdefault(v['class'], []).append((idx, v))
    for vclass, items in list(by_class.items())[:4]:
        idx, v = items[0]
        case = gen_case(mod, seed, idx, tier)
        if vclass in ('hang', 'hang-hard'):
            confirm = getattr(mod, 'HANG_CONFIRM_S', 60)
            out = run_isolated(mod, case, limit=confirm, scale=10)
            real, _ = violation_classes(out, prop, known)
            if not any(x['class'] in ('hang', 'hang-hard') for x in real):
                agg['extra']['slow_under_load_not_hang'] += len(items)
                if not real:
                    continue
                v = real[0]
                vclass = v['class']
        small, steps = case, 0
        if vclass not in ('hang', 'hang-hard', 'crash'):
            small, steps = minimise(mod, case, vclass, known, budget_s=plan.get('shrink_s', 60), violation=v)
            same = []
            for _attempt in range(max(1, int(getattr(mod, 'REPLAY_ATTEMPTS', 1)))):
                out = run_isolated(mod, small, limit=60, perturb=_attempt)
                real, _ = violation_classes(out, prop, known)
                same = [x for x in real if x['class'] == vclass]
                if same:
                    break
            if same:
                v = same[0]
            else:
                small, steps = case, 0   # minimised case does not replay in a fresh process: keep the original
        path = write_replay(mod, seed, idx, small, v, steps, original_case=case)
        reported.append((vclass, len(items), path))
        print('violation class=%s occurrences=%d first_run=%d minimisation_steps=%d' % (vclass, len(items), idx, steps))
        print('  detail: %s' % observe.jdump(v.get('detail'))[:3000])
        print('VIOLATION property=%s replay=%s' % (prop, path))
        exit_code = 1

    # --- known findings: one line per listed finding of this property, whether a seeded run met it or the
    # fixed canary case of the check module reproduces it (so the line does not depend on the seed)
    canaries = mod.canaries() if hasattr(mod, 'canaries') else {}
    canary_status = {}
    for (kprop, vclass), text in sorted(known.items()):
        if kprop != prop:
            continue
        n = agg['known'].get(vclass, 0)
        status = 'no-canary'
        if vclass in canaries:
            cout = run_isolated(mod, canaries[vclass], limit=120)
            if cout.get('harness_error'):
                agg['harness_errors'].append((-2, 'canary of %s failed:\n%s' % (vclass, cout['harness_error'])))
                status = 'error'
            else:
                creal, ckn = violation_classes(cout, prop, known)
                status = 'reproduced' if any(v['class'] == vclass for v in ckn) else 'not-reproduced'
                for v in creal:
                    agg['violations_canary'] = agg.get('violations_canary', []) + [v]
        canary_status[vclass] = status
        ex = agg['known_examples'].get(vclass)
        if n or status == 'reproduced':
            print('KNOWN-FINDING: property=%s class=%s observed=%d canary=%s (%s) first_run=%s' % (
                prop, vclass, n, status, text[:300], ex[0] if ex else '-'))
        else:
            print('note: listed known finding class=%s was neither met by a seeded run nor reproduced by its canary (canary=%s)' % (vclass, status))

    # --- determinism self-test (a mismatch is a harness error, never a verdict)
    det = {'checked': 0, 'ok': True}
    if selfcheck and agg['digests'] and not agg['harness_errors']:
        pick = sorted(agg['digests'])
        pick = [i for i in pick if agg['digests'][i] not in ('hang', 'hang-hard', 'crash', 'error')]
        try:
            fresh = digests_fresh(mod, tier, seed, pick)
            bad = [i for i in pick if fresh.get(i, [None])[0] != agg['digests'][i]]
            det = {'checked': len(pick), 'ok': not bad, 'mismatching_runs': bad}
            if bad:
                agg['harness_errors'].append((bad[0], 'determinism self-test: event-log digest of run(s) %r differs '
                                              'between the pool and a fresh interpreter under another PYTHONHASHSEED' % bad))
        except Exception as exc:
            agg['harness_errors'].append((-1, 'determinism self-test could not run: %r' % (exc,)))

    if dump_all is not None:
        with open(os.environ['VERIF_DUMP_DIGESTS'], 'w') as f:
            json.dump({str(k): v for k, v in sorted(dump_all.items())}, f)
    wall_s = time.monotonic() - t0
    cov = {
        'evaluations': agg['evals'],
        'distinct_nontrivial': len(agg['sigs']),
        'rule': mod.RULE,
        'samples': agg['samples'][:6],
        'simulated_runs': agg['runs'],
        'runs_planned': runs,
        'stopped_early_by_wall_budget': bool(stopped_early),
        'runs_per_hour': int(agg['runs'] / max(t_pool, 1e-6) * 3600),
        'seeds_per_hour': int(agg['runs'] / max(t_pool, 1e-6) * 3600),
        'fault_kinds_fired': dict(sorted(agg['faults'].items())),
        'reach_probes': dict(sorted(agg['probes'].items())),
        'counters': dict(sorted(agg['extra'].items())),
        'maxima': dict(sorted(agg['maxima'].items())),
        'distinct_measure': getattr(mod, 'DISTINCT_MEASURE', 'distinct event-log signatures of non-trivial runs'),
        'simulated_time': 'not applicable: no code path of the library reads a clock or arms a timer',
        'components': {'real': ['lib/yaml/*.py from the working tree of /repo', 'yaml._yaml (Cython binding) + LibYAML'],
                       'stub': getattr(mod, 'STUBS', ['caller streams', 'user callbacks'])},
        'c_backend': st['note'] + ('' if st.get('with_libyaml') else ' [not importable]'),
        'jobs': jobs,
        'known_findings_observed': dict(agg['known']),
        'known_findings_canaries': canary_status,
        'determinism_selftest': det,
        'violation_classes': [{'class': c, 'occurrences': n, 'replay': p} for c, n, p in reported],
        'exhaustive': False,
    }
    if hasattr(mod, 'coverage_extra'):
        cov.update(mod.coverage_extra(agg))
    ev = {'property_id': prop, 'tier': tier, 'seed': seed, 'level': mod.LEVEL, 'coverage': cov,
          'assumptions': mod.ASSUMPTIONS, 'wall_s': round(wall_s, 2), 'violations': len(reported)}
    if evidence:
        os.makedirs(EVIDENCE_DIR, exist_ok=True)
        with open(os.path.join(EVIDENCE_DIR, prop + '.json'), 'w') as f:
            json.dump(ev, f, indent=1, sort_keys=True, default=repr)
            f.write('\n')

    print('%s tier=%s seed=%d runs=%d evaluations=%d distinct_nontrivial=%d known=%s violations=%d wall=%.1fs (%d runs/h)' % (
        prop, tier, seed, agg['runs'], agg['evals'], len(agg['sigs']), dict(agg['known']), len(reported),
        wall_s, cov['runs_per_hour']))
    if verbose:
        print(' faults fired:', dict(agg['faults']))
        print(' probes:', dict(agg['probes']))
        print(' counters:', dict(agg['extra']))
        print(' maxima:', dict(agg['maxima']))
        print(' c back-end:', cov['c_backend'])
    if agg['harness_errors'] and exit_code == 0:
        idx, tb = agg['harness_errors'][0]
        print('HARNESS-ERROR property=%s runs_affected=%d first_run=%s\n%s' % (prop, len(agg['harness_errors']), idx, tb))
        return 2
    if agg['harness_errors']:
        print('note: %d harness errors besides the violation(s); first:\n%s' % (len(agg['harness_errors']), agg['harness_errors'][0][1]))
    return exit_code
