"""Persistent worker interpreter for C16: started with its own PYTHONHASHSEED, reads one JSON
request per line on stdin, writes one JSON answer per line on stdout.

request : {'recipe', 'perms': [int], 'opts': {...}, 'dumper': name, 'junk': int}
answer  : {'texts': [text or {'exc': class}], 'redump': ..., 'exact': bool, 'order': bool|None,
           'docorder': bool|None, 'set_order': str, 'hashseed': str}
"""
import json
import os
import random
import sys

VERIF = os.path.dirname(os.path.dirname(os.path.abspath(__file__)))
sys.path.insert(0, VERIF)
sys.path.insert(0, os.environ['VERIF_YAML_PATH'])

import yaml  # noqa: E402
from sim import observe, values  # noqa: E402

LOADER_FOR = {'SafeDumper': 'SafeLoader', 'CSafeDumper': 'CSafeLoader', 'Dumper': 'FullLoader', 'CDumper': 'CFullLoader'}


def dump(value, dumper, opts):
    o = dict(opts)
    if 'version' in o:
        o['version'] = tuple(o['version'])
    try:
        return yaml.dump(value, Dumper=getattr(yaml, dumper), **o)
    except yaml.YAMLError as exc:
        return {'exc': type(exc).__name__}


def handle(req):
    junk = [object() for _ in range(req.get('junk', 0))]      # shifts object addresses
    dumper = req['dumper']
    loader = getattr(yaml, LOADER_FOR[dumper])
    opts = req['opts']
    ans = {'texts': [], 'hashseed': os.environ.get('PYTHONHASHSEED')}
    first_set = []
    same = None
    for prc in req.get('primes') or []:
        # the dump history of this interpreter
        if prc and prc[0] == 'failsame':
            same = values.build(req['recipe'], perm=req['perms'][0])
            _failing_dump_then_repair(same, dumper, opts)
            continue
        if prc and prc[0] == 'other':
            try:
                dump(values.build(prc[1]), prc[2]['dumper'], prc[2]['opts'])
            except Exception:
                pass                 # e.g. a sort_keys flip on a mixed-key value: the history is what matters
            continue
        if prc and prc[0] == 'failwrite':
            # a dump into a stream whose write() fails after a few calls (disk full): the call is cut short inside the
            # serializer / emitter, after anchors were handed out
            class _Full:
                def __init__(self, n):
                    self.n = n

                def write(self, data):
                    self.n -= 1
                    if self.n < 0:
                        raise OSError(28, 'No space left on device')
            try:
                o = dict(opts)
                if 'version' in o:
                    o['version'] = tuple(o['version'])
                yaml.dump(values.build(prc[1]), _Full(prc[2]), Dumper=getattr(yaml, dumper), **o)
            except Exception:
                pass
            continue
        if prc and prc[0] == 'fail':
            try:
                o = dict(opts)
                if 'version' in o:
                    o['version'] = tuple(o['version'])
                yaml.dump_all([values.build(prc[1]), (i for i in ())], Dumper=getattr(yaml, dumper), **o)
            except Exception:
                pass
            continue
        dump(values.build(prc), dumper, opts)
    for n, perm in enumerate(req['perms']):
        x = values.build(req['recipe'], perm=perm)
        if n == 0:
            if same is not None:
                x = same
            _find_set(x, first_set, set())
        t = dump(x, dumper, opts)
        ans['texts'].append(t)
        if not isinstance(t, str):
            ans.setdefault('order', []).append(None)
            continue
        # key order as seen by a loader of the text just written
        try:
            y = yaml.load(t, Loader=loader)
            # the safe dumpers write a tuple as a plain sequence by design (it comes back as a list): for the
            # fixed-point guard that is an exact round trip
            tl = dumper in ('SafeDumper', 'CSafeDumper')
            exact = observe.value(y, ordered=False, tuple_as_list=tl) == observe.value(x, ordered=False, tuple_as_list=tl)
        except yaml.YAMLError as exc:
            y, exact = None, False
            ans.setdefault('load_errors', []).append(type(exc).__name__)
        ans.setdefault('order', []).append(_order_verdict(x, y) if not opts.get('sort_keys', True) else None)
        if n == 0:
            ans['exact'] = exact
            ans['multidoc'] = _multidoc(req, x, t, dumper, opts)
            if y is not None or exact:
                ans['redump'] = dump(y, dumper, opts)
                ans['docorder'] = (dump(y, dumper, dict(opts, sort_keys=False)) == t) if (exact and not _has_set(y, set())) else None
    if req.get('handdoc'):
        ans['handdoc'] = _handdoc(req['handdoc'])
    ans['set_order'] = ','.join(first_set[0]) if first_set else ''
    del junk
    return ans


def _failing_dump_then_repair(x, dumper, opts):
    """Put something unrepresentable into x (as the value of the key that sorts first / as the first item), dump - which
    fails - and take it out again: x is what it was, the library has seen it in a state that no longer exists."""
    poison = (i for i in ())
    o = dict(opts)
    if 'version' in o:
        o['version'] = tuple(o['version'])
    if isinstance(x, dict) and x:
        try:
            k = sorted(x)[0]
        except TypeError:
            k = next(iter(x))
        saved = x[k]
        x[k] = poison
        try:
            yaml.dump(x, Dumper=getattr(yaml, dumper), **o)
        except Exception:
            pass
        x[k] = saved
    elif isinstance(x, list) and x:
        saved = x[0]
        x[0] = poison
        try:
            yaml.dump(x, Dumper=getattr(yaml, dumper), **o)
        except Exception:
            pass
        x[0] = saved


def _handdoc(spec):
    """Document order on load for a mapping written by hand (plain keys the dumpers would quote: '=', 'yes', '~',
    numbers, dates): the keys of the loaded mapping, in iteration order, against each key scalar loaded alone."""
    loader = getattr(yaml, spec['loader'])
    keys = spec['keys']
    try:
        alone = [list(yaml.load(k + ': 0\n', Loader=loader))[0] for k in keys]     # each key as the only key of a mapping
        hash(tuple(map(repr, alone)))
        if len({observe.jdump(observe.value(k)) for k in alone}) != len(alone) or any(isinstance(k, (list, dict, set)) for k in alone):
            return None
        if len(set(alone)) != len(alone):
            return None
        if spec['style'] == 'flow':
            text = '{' + ', '.join('%s: v%d' % (k, i) for i, k in enumerate(keys)) + '}\n'
        else:
            text = ''.join('%s: v%d\n' % (k, i) for i, k in enumerate(keys))
        y = yaml.load(text, Loader=loader)
    except (yaml.YAMLError, TypeError, ValueError):
        return None
    if not isinstance(y, dict) or len(y) != len(alone):
        return None
    got = [observe.jdump(observe.value(k)) for k in y]
    want = [observe.jdump(observe.value(k)) for k in alone]
    return None if got == want else {'text': text, 'loaded_order': got, 'document_order': want}


def _doc_events(text):
    docs, cur = [], None
    for ev in yaml.parse(text, Loader=yaml.SafeLoader):
        name = type(ev).__name__
        if name in ('StreamStartEvent', 'StreamEndEvent'):
            continue
        if name == 'DocumentStartEvent':
            cur = []
            docs.append(cur)
        d = {k: v for k, v in vars(ev).items() if k not in ('start_mark', 'end_mark', 'explicit')}
        cur.append([name, observe._plain(d)])
    return docs


def _multidoc(req, x, t, dumper, opts):
    """Anchor names (and everything else) are a function of the document alone: inside
    dump_all([w, x, x']) - w a small document with two anchors of its own, x' a second, unshared build
    of the same recipe - the events of x and of x' equal the events of dump(x).  Returns None or a
    description of the difference."""
    try:
        shared = [0]
        w = {'p': shared, 'q': shared, 'r': [shared]}
        if req.get('sibling') is not None:
            # the document before x is an ==-equal variant of x (1 / True / 1.0, 0 / False / -0.0 ...)
            w = values.build(req['sibling'], perm=req['perms'][0])
        x2 = values.build(req['recipe'], perm=req['perms'][0])
        o = dict(opts)
        if 'version' in o:
            o['version'] = tuple(o['version'])
        stream = yaml.dump_all([w, x, x2], Dumper=getattr(yaml, dumper), **o)
        docs = _doc_events(stream)
        alone = _doc_events(t)
    except yaml.YAMLError as exc:
        return {'error': type(exc).__name__}
    if len(docs) != 3 or len(alone) != 1:
        return {'documents': [len(docs), len(alone)]}
    for n in (1, 2):
        if docs[n] != alone[0]:
            for i, (a, b) in enumerate(zip(alone[0], docs[n])):
                if a != b:
                    return {'document': n, 'event': i, 'alone': a, 'in_stream': b}
            return {'document': n, 'events': [len(alone[0]), len(docs[n])]}
    # ... also when the SAME container object is written twice with other contents (a record that is refilled and
    # yielded again): document 2 of dump_all(gen) equals dump([x]) of a fresh list
    try:
        w5 = values.build(req['sibling'], perm=req['perms'][0]) if req.get('sibling') is not None else {'p': [0]}
        x5 = values.build(req['recipe'], perm=req['perms'][0])
        x6 = values.build(req['recipe'], perm=req['perms'][0])

        def refilled():
            holder = [w5]
            yield holder
            holder[0] = x5
            yield holder
        ev = _doc_events(yaml.dump_all(refilled(), Dumper=getattr(yaml, dumper), **o))
        alone2 = _doc_events(yaml.dump([x6], Dumper=getattr(yaml, dumper), **o))
    except yaml.YAMLError as exc:
        return {'error': type(exc).__name__, 'where': 'refilled-container'}
    if len(ev) != 2 or len(alone2) != 1:
        return {'where': 'refilled-container', 'documents': [len(ev), len(alone2)]}
    if ev[1] != alone2[0]:
        for i, (a, b) in enumerate(zip(alone2[0], ev[1])):
            if a != b:
                return {'where': 'refilled-container (same list object yielded twice with other contents)', 'event': i, 'alone': a, 'in_stream': b}
        return {'where': 'refilled-container', 'events': [len(alone2[0]), len(ev[1])]}
    # ... and inside ONE document, at the level of the representation graph (the emitted text of a nested value
    # legitimately depends on its indentation through line folding): the node the representer builds for x as the
    # second item of [sibling, x] equals the node it builds for x alone.  Evaluated for values without shared or
    # recursive parts (no node is re-used, so the graphs are comparable one to one).
    if req.get('sibling') is not None and not _has_refs(req['recipe']) and not _has_refs(req['sibling']):
        import io
        try:
            D = getattr(yaml, dumper)
            w2 = values.build(req['sibling'], perm=req['perms'][0])
            x3 = values.build(req['recipe'], perm=req['perms'][0])
            x4 = values.build(req['recipe'], perm=req['perms'][0])
            d1, d2 = D(io.StringIO(), **o), D(io.StringIO(), **o)
            both = d1.represent_data([w2, x3])
            alone_node = d2.represent_data(x4)
            d1.dispose()
            d2.dispose()
        except yaml.YAMLError as exc:
            return {'error': type(exc).__name__, 'where': 'sibling-in-one-document'}
        a, b = observe.node(alone_node), observe.node(both.value[1])
        if a != b:
            return {'where': 'sibling-in-one-document (representation graph)', 'alone': observe.jdump(a)[:600], 'next_to_sibling': observe.jdump(b)[:600]}
    return None


def _has_refs(rc):
    if isinstance(rc, list):
        if rc and rc[0] in ('ref', 'shared'):
            return True
        return any(_has_refs(e) for e in rc)
    return False


def _has_set(v, seen):
    if isinstance(v, (set, frozenset)):
        return True
    if isinstance(v, (list, tuple, dict)):
        if id(v) in seen:
            return False
        seen.add(id(v))
        it = list(v.values()) + list(v.keys()) if isinstance(v, dict) else v
        return any(_has_set(e, seen) for e in it)
    return False


def _find_set(v, out, seen):
    if out or id(v) in seen:
        return
    if isinstance(v, (list, tuple, dict, set)):
        seen.add(id(v))
    if isinstance(v, set) and len(v) > 1 and all(isinstance(e, str) for e in v):
        out.append([repr(e) for e in v])
    elif isinstance(v, (list, tuple)):
        for e in v:
            _find_set(e, out, seen)
    elif isinstance(v, dict):
        for e in v.values():
            _find_set(e, out, seen)


def _order_verdict(x, y):
    """True / False: the loaded value lists the keys of every mapping in insertion order / not;
    None: not evaluated (load failed, or some key does not round-trip exactly - C02 territory)."""
    if y is None:
        return None
    a, b = _key_order(x), _key_order(y)
    if len(a) != len(b) or any(sorted(p) != sorted(q) for p, q in zip(a, b)):
        return None
    return a == b


def _key_order(v):
    """Nested key sequences of all dicts, in traversal order (keys by type-strict canonical form)."""
    out = []
    seen = set()

    def walk(x):
        if isinstance(x, (list, tuple, dict)):
            if id(x) in seen:
                return
            seen.add(id(x))
        if isinstance(x, dict):
            out.append([observe.jdump(observe.value(k)) for k in x])
            for e in x.values():
                walk(e)
        elif isinstance(x, (list, tuple)):
            for e in x:
                walk(e)
    walk(v)
    return out


def main():
    """Every request is served by a child forked from this interpreter, which has imported yaml and made
    no call: each case starts from the same pristine library state (its dump history is part of the
    request), so a case is replayable on its own."""
    out = sys.stdout
    for line in sys.stdin:
        line = line.strip()
        if not line:
            continue
        rfd, wfd = os.pipe()
        pid = os.fork()
        if pid == 0:
            code = 0
            try:
                os.close(rfd)
                try:
                    ans = handle(json.loads(line))
                except BaseException:
                    import traceback
                    ans = {'harness_error': traceback.format_exc()}
                with os.fdopen(wfd, 'w') as f:
                    f.write(json.dumps(ans))
            except BaseException:
                code = 3
            finally:
                os._exit(code)
        os.close(wfd)
        with os.fdopen(rfd, 'r') as f:
            data = f.read()
        _, status = os.waitpid(pid, 0)
        if not data:
            data = json.dumps({'crash': status})
        out.write(data + '\n')
        out.flush()


if __name__ == '__main__':
    main()
