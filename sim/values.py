"""Seeded value recipes (JSON-able) and their construction into Python values.

A recipe is built step by step in a fixed order, so the *same* value (same insertion order,
same sharing) can be rebuilt in any process / under any hash seed.  Containers carry an id so
that ['ref', id] can express sharing and recursion."""
import datetime

STRS = ['', 'a', 'abc', 'hello world', 'key', 'yes', 'no', 'null', '~', '1', '1.5', '0x1F', '2001-01-01', 'a: b', '- x',
        '#c', "it's", 'say "hi"', ' lead', 'trail ', 'multi\nline', 'tab\there', 'caf\u00e9', '\u4e2d\u6587',
        '\U0001F600', 'x' * 60, 'word ' * 30, '\x85nel', '\u2028ls', 'a\x07bell', '\ufeffbom', '!tag', '&anc', '*ali', '%dir',
        '@at', '`bt', '[', ']', '{', '}', ',', '?', ':', '-', '--- doc', '... end', '=', '<<', '\\back', 'CR\rCR', '\0nul',
        # line breaks and indentation at the edges of a text (block scalar headers, chomping, indentation detection)
        '\n foo\n', '\n\n   x', ' lead\n', 'a\n\n b', '\n', 'x\n\n', '  two\n one', 'tab\t\n', '\n\tx', '\n x\ny', ' a\n  b\n c', 'x\n ',
        '\n \n', 'a \nb', 'a\n b\n', '\n\n', ' \n x', 'foo\n  bar\n\n baz\n', '\ta', '# c\n x', '- a\n - b', 'k: v\n  k2: v', '\r\n x', '  ',
        'x ', '\n  foo\n bar']


class Pt:
    """User data class for callback seams (representer / constructor)."""

    def __init__(self, x, y):
        self.x = x
        self.y = y

    def __eq__(self, other):
        return type(other) is Pt and (self.x, self.y) == (other.x, other.y)

    def __hash__(self):
        return hash(('Pt', self.x, self.y))

    def __repr__(self):
        return 'Pt(%r, %r)' % (self.x, self.y)


class Gen:
    def __init__(self, r, safe=True, custom=0.0, share=0.15, depth=3, hashable_keys='scalar', width=5, tuples=False):
        self.r = r
        self.safe = safe
        self.custom = custom
        self.share = share
        self.maxdepth = depth
        self.width = width
        self.n = 0
        self.open = []       # ids of containers under construction (candidates for recursion)
        self.done = []       # ids of finished containers (candidates for sharing)
        self.kinds = {}
        self.tuples = tuples

    def scalar(self):
        r = self.r
        x = r.random()
        if x < 0.1:
            return ['none']
        if x < 0.2:
            return ['bool', r.random() < 0.5]
        if x < 0.4:
            return ['int', r.choice([0, 1, -1, 7, 42, 255, -1000, 10 ** 12, 2 ** 64, r.randint(-10 ** 6, 10 ** 6)])]
        if x < 0.5:
            return ['float', r.choice(['0.0', '-0.0', '1.5', '-2.25', '1e+100', '1e-07', 'inf', '-inf', 'nan', '3.14159',
                                       repr(r.uniform(-1000, 1000))])]
        if x < 0.85:
            s = r.choice(STRS)
            if r.random() < 0.2:
                s = s + ' ' + r.choice(STRS)
            return ['str', s]
        if x < 0.9:
            return ['bytes', bytes(r.randrange(256) for _ in range(r.randint(0, 40))).hex()]
        if x < 0.95:
            return ['date', r.randint(1, 9999), r.randint(1, 12), r.randint(1, 28)]
        return ['datetime', r.randint(1, 9999), r.randint(1, 12), r.randint(1, 28), r.randint(0, 23), r.randint(0, 59),
                r.randint(0, 59), r.choice([0, 0, 1, 500000, 123456, r.randrange(1000000), r.randrange(1000000)]), r.choice([None, None, 0, 60, -330])]

    def key(self):
        r = self.r
        x = r.random()
        if x < 0.65:
            return ['str', r.choice(STRS[:40])]
        if x < 0.8:
            return ['int', r.randint(-5, 50)]
        if x < 0.85:
            return ['bool', r.random() < 0.5]
        if x < 0.9:
            return ['none']
        if x < 0.95:
            return ['float', r.choice(['1.5', '-2.25', 'inf'])]
        return ['date', 2000 + r.randint(0, 30), r.randint(1, 12), r.randint(1, 28)]

    def value(self, depth=0):
        r = self.r
        x = r.random()
        if (self.done or self.open) and x < self.share and depth > 0:
            pool = self.done + (self.open if r.random() < 0.5 else [])
            if pool:
                return ['ref', r.choice(pool)]
        if self.custom and r.random() < self.custom:
            return ['pt', r.randint(-9, 9), r.randint(-9, 9)]
        if depth >= self.maxdepth or x < 0.45:
            return self.scalar()
        cid = self.n
        self.n += 1
        self.open.append(cid)
        k = r.randint(0, self.width)
        y = r.random()
        if y < 0.45:
            out = ['list', [self.value(depth + 1) for _ in range(k)], cid]
        elif y < 0.9:
            items, seen = [], set()
            for _ in range(k):
                key = self.key()
                tk = repr(key)
                if tk in seen:
                    continue
                seen.add(tk)
                items.append([key, self.value(depth + 1)])
            out = ['dict', items, cid]
        elif y < 0.96 or not self.tuples:
            seen, items = set(), []
            for _ in range(k):
                key = ['str', r.choice(STRS[:40])] if r.random() < 0.8 else ['int', r.randint(0, 20)]
                if repr(key) not in seen:
                    seen.add(repr(key))
                    items.append(key)
            out = ['set', items, cid]
        else:
            out = ['tuple', [self.scalar() for _ in range(k)], cid]
        self.open.remove(cid)
        self.done.append(cid)
        return out


def gen(r, **kw):
    return Gen(r, **kw).value(0)


# containers with an id in this range keep their recipe order under every insertion permutation (mappings whose keys
# are not mutually comparable: their text legitimately follows the insertion order)
FIXED_ORDER_IDS = (880000, 890000)


def build(recipe, pt_class=Pt, perm=0):
    """Recipe -> Python value (containers created on first visit, filled afterwards, so
    ['ref', id] to an enclosing container gives a recursive structure).  perm != 0: the
    members of every dict / set are built in recipe order (so references resolve identically)
    but *inserted* in an order shuffled by (perm, container id)."""
    import random
    made = {}

    def order(n, cid):
        idx = list(range(n))
        if perm and not (FIXED_ORDER_IDS[0] <= cid < FIXED_ORDER_IDS[1]):
            random.Random(perm * 1000003 + cid).shuffle(idx)
        return idx

    def mk(rc):
        t = rc[0]
        if t == 'none':
            return None
        if t == 'bool':
            return bool(rc[1])
        if t == 'int':
            return int(rc[1])
        if t == 'float':
            return float(rc[1])
        if t == 'str':
            return rc[1]
        if t == 'bytes':
            return bytes.fromhex(rc[1])
        if t == 'date':
            return datetime.date(rc[1], rc[2], rc[3])
        if t == 'datetime':
            tz = None if rc[8] is None else datetime.timezone(datetime.timedelta(minutes=rc[8]))
            return datetime.datetime(rc[1], rc[2], rc[3], rc[4], rc[5], rc[6], rc[7], tzinfo=tz)
        if t == 'pt':
            return pt_class(rc[1], rc[2])
        if t == 'shared':
            # a leaf object that occurs several times in the value (the *same* object, not an equal one)
            key = ('leaf', rc[1])
            if key not in made:
                made[key] = mk(rc[2])
            return made[key]
        if t == 'ref':
            if rc[1] in made:
                return made[rc[1]]
            return None            # forward reference to a container that was shrunk away
        if t == 'list':
            v = []
            made[rc[2]] = v
            for x in rc[1]:
                v.append(mk(x))
            return v
        if t == 'tuple':
            v = tuple(mk(x) for x in rc[1])
            made[rc[2]] = v
            return v
        if t == 'dict':
            v = {}
            made[rc[2]] = v
            pairs = [(mk(k), mk(x)) for k, x in rc[1]]
            for i in order(len(pairs), rc[2]):
                kk, xx = pairs[i]
                try:
                    v[kk] = xx
                except TypeError:
                    v[repr(kk)] = xx
            return v
        if t == 'set':
            v = set()
            made[rc[2]] = v
            members = [mk(x) for x in rc[1]]
            for i in order(len(members), rc[2]):
                v.add(members[i])
            return v
        raise ValueError(t)
    return mk(recipe)


def shrink_recipe(rc):
    """Smaller recipes (children promoted, elements dropped)."""
    t = rc[0]
    if t in ('list', 'tuple', 'set'):
        for i in range(len(rc[1])):
            yield [t, rc[1][:i] + rc[1][i + 1:], rc[2]]
        for x in rc[1]:
            if x[0] in ('list', 'dict', 'set', 'tuple'):
                yield x
        for i, x in enumerate(rc[1]):
            for sx in shrink_recipe(x):
                yield [t, rc[1][:i] + [sx] + rc[1][i + 1:], rc[2]]
    elif t == 'dict':
        for i in range(len(rc[1])):
            yield [t, rc[1][:i] + rc[1][i + 1:], rc[2]]
        for k, x in rc[1]:
            if x[0] in ('list', 'dict', 'set', 'tuple'):
                yield x
        for i, (k, x) in enumerate(rc[1]):
            for sx in shrink_recipe(x):
                yield [t, rc[1][:i] + [[k, sx]] + rc[1][i + 1:], rc[2]]
    elif t == 'str' and len(rc[1]) > 1:
        yield ['str', rc[1][:len(rc[1]) // 2]]
        yield ['str', 'a']
    elif t not in ('none',):
        yield ['none']


def hash_order_free(rc, sort_keys=True):
    """A copy of the recipe whose dump text cannot depend on the hash seed: sets with several members
    get members of one family (str), so that they are always sorted; with sort_keys=False sets keep one
    member only.  (Checks other than C16 must be replayable under any PYTHONHASHSEED.)"""
    t = rc[0]
    if t == 'set':
        members, seen = [], set()
        for m in rc[1]:
            mm = m if m[0] == 'str' else ['str', repr(m[1:])]
            if mm[1] not in seen:
                seen.add(mm[1])
                members.append(mm)
        if not sort_keys:
            members = members[:1]
        return [t, members, rc[2]]
    if t in ('list', 'tuple'):
        return [t, [hash_order_free(x, sort_keys) for x in rc[1]], rc[2]]
    if t == 'dict':
        return [t, [[k, hash_order_free(x, sort_keys)] for k, x in rc[1]], rc[2]]
    if t == 'shared':
        return [t, rc[1], hash_order_free(rc[2], sort_keys)]
    return rc
