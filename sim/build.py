"""Locate the code under test (/repo's working tree) and make it importable.

Pure-Python part: imported directly from <repo>/lib, so edits take effect at once.
C back-end: <repo>/lib/yaml/_yaml*.so is used when it is not older than
<repo>/yaml/_yaml.c; otherwise _yaml.c is compiled with gcc into /verif/.cache/
and a shadow package (symlinks to the *.py files + the built .so) is used.
Cython is not available in the sandbox: an edited _yaml.pyx without a regenerated
_yaml.c cannot be rebuilt, which is reported in the evidence.
"""
import glob
import os
import subprocess
import sys
import sysconfig

VERIF = os.path.dirname(os.path.dirname(os.path.abspath(__file__)))
REPO = os.environ.get('VERIF_REPO', '/repo')
# VERIF_YAML_LIB: alternative directory containing the `yaml` package (used by the
# sensitivity self-test to point a check at a mutated scratch copy).
LIB = os.environ.get('VERIF_YAML_LIB') or os.path.join(REPO, 'lib')
CACHE = os.path.join(VERIF, '.cache')

_status = {}


def _so_candidates(libdir):
    return sorted(glob.glob(os.path.join(libdir, 'yaml', '_yaml*.so')))


def _build_shadow(libdir):
    """Compile yaml/_yaml.c and return a directory holding a shadow `yaml` package."""
    csrc = os.path.join(REPO, 'yaml', '_yaml.c')
    if not os.path.exists(csrc):
        return None, 'no generated yaml/_yaml.c and no usable .so'
    tag = "shadow"
    shadow = os.path.join(CACHE, tag)
    pkg = os.path.join(shadow, 'yaml')
    os.makedirs(pkg, exist_ok=True)
    suffix = sysconfig.get_config_var('EXT_SUFFIX')
    so = os.path.join(pkg, '_yaml' + suffix)
    if not os.path.exists(so) or os.path.getmtime(so) < os.path.getmtime(csrc):
        inc = sysconfig.get_paths()['include']
        cmd = ['gcc', '-shared', '-fPIC', '-O1', '-w', '-I', inc,
               '-I', os.path.join(REPO, 'yaml'), csrc, '-lyaml', '-o', so + '.tmp']
        try:
            subprocess.run(cmd, check=True, capture_output=True, timeout=300)
            os.replace(so + '.tmp', so)
        except Exception as exc:  # no compiler, no libyaml headers, ...
            return None, 'building _yaml.c failed: %r' % (exc,)
    for name in os.listdir(pkg):
        if name.endswith('.py'):
            os.unlink(os.path.join(pkg, name))
    for src in glob.glob(os.path.join(libdir, 'yaml', '*.py')):
        dst = os.path.join(pkg, os.path.basename(src))
        os.symlink(src, dst)
    return shadow, 'C back-end rebuilt from yaml/_yaml.c into .cache (the .so in lib/ was missing or older)'


def prepare():
    """Decide which directory goes on sys.path.  Called once, in the parent, before fork."""
    if _status:
        return _status
    libdir = LIB
    note = 'C back-end: %s/yaml/_yaml*.so as found' % libdir
    sos = _so_candidates(libdir)
    csrc = os.path.join(REPO, 'yaml', '_yaml.c')
    pyx = os.path.join(REPO, 'yaml', '_yaml.pyx')
    need_build = False
    if not sos:
        need_build = True
    elif os.path.exists(csrc) and os.path.getmtime(sos[0]) < os.path.getmtime(csrc):
        need_build = True
    path = libdir
    if need_build:
        shadow, why = _build_shadow(libdir)
        if shadow:
            path = shadow
            note = why
        else:
            note = 'C back-end NOT RUN: ' + why
    stale = False
    if os.path.exists(pyx) and os.path.exists(csrc) and os.path.getmtime(pyx) > os.path.getmtime(csrc) + 1:
        stale = True
        note += '; WARNING: yaml/_yaml.pyx is newer than the generated _yaml.c and Cython is not installed, so the C back-end does not reflect edits to _yaml.pyx'
    _status.update(path=path, lib=libdir, note=note, pyx_stale=stale)
    return _status


def activate():
    """Put the code under test first on sys.path and import it."""
    st = prepare()
    if sys.path[0] != st['path']:
        sys.path.insert(0, st['path'])
    for name in list(sys.modules):
        if name == 'yaml' or name.startswith('yaml.'):
            mod = sys.modules[name]
            f = getattr(mod, '__file__', '') or ''
            if not os.path.realpath(f).startswith(os.path.realpath(st['lib'])) and \
               not f.startswith(st['path']):
                del sys.modules[name]
    import yaml
    real = os.path.realpath(yaml.__file__)
    if not (real.startswith(os.path.realpath(st['lib'])) or yaml.__file__.startswith(st['path'])):
        raise RuntimeError('yaml imported from %s, expected %s' % (yaml.__file__, st['lib']))
    st['with_libyaml'] = bool(getattr(yaml, '__with_libyaml__', False))
    if not st['with_libyaml'] and 'NOT RUN' not in st['note']:
        st['note'] = 'C back-end NOT RUN: yaml._yaml could not be imported; ' + st['note']
    return yaml


def status():
    return dict(prepare())
