"""Rewrite non-ASCII characters in a source file as \\u escapes (sources are kept ASCII-only)."""
import re, sys
for p in sys.argv[1:]:
    s = open(p, encoding='utf-8').read()
    def esc(m):
        o = ord(m.group())
        return '\\u%04x' % o if o < 0x10000 else '\\U%08x' % o
    s2 = re.sub(r'[^\x00-\x7f]', esc, s)
    if s2 != s:
        open(p, 'w', encoding='ascii').write(s2)
        print('asciified', p)
