"""CLI: sim/main.py <property> [--tier quick|thorough] [--replay file] [--runs N] [--jobs N]"""
import argparse
import importlib
import os
import sys

VERIF = os.path.dirname(os.path.dirname(os.path.abspath(__file__)))
if VERIF not in sys.path:
    sys.path.insert(0, VERIF)


def main(argv=None):
    ap = argparse.ArgumentParser()
    ap.add_argument('property')
    ap.add_argument('--tier', default=os.environ.get('VERIF_TIER') or 'quick', choices=['quick', 'thorough'])
    ap.add_argument('--replay')
    ap.add_argument('--runs', type=int)
    ap.add_argument('--jobs', type=int)
    ap.add_argument('--wall', type=float)
    ap.add_argument('--digest')
    ap.add_argument('--no-selfcheck', action='store_true')
    ap.add_argument('--no-evidence', action='store_true', help='side run: do not rewrite evidence/<id>.json')
    ap.add_argument('--show', type=int, help='print the generated case of one run index')
    ap.add_argument('-v', '--verbose', action='store_true')
    args = ap.parse_args(argv)
    if os.environ.get('PYTHONHASHSEED') is None:
        # all harness-side sets are canonicalised, but pin the hash seed anyway
        os.environ['PYTHONHASHSEED'] = '0'
        os.execv(sys.executable, [sys.executable, '-B'] + sys.argv)
    from sim import kernel
    mod = importlib.import_module('checks.' + args.property.lower())
    seed = int(os.environ.get('VERIF_SEED') or kernel.DEFAULT_SEED)
    if args.replay:
        return kernel.replay(mod, args.replay)
    if args.digest:
        return kernel.print_digests(mod, args.tier, seed, [int(x) for x in args.digest.split(',') if x])
    if args.show is not None:
        from sim import build, observe
        build.activate()
        case = kernel.gen_case(mod, seed, args.show, args.tier)
        print(observe.jdump(case)[:20000])
        out = kernel.safe_execute(mod, case)
        print(observe.jdump(out)[:20000])
        return 0
    return kernel.run_check(mod, args.tier, seed, runs=args.runs, jobs=args.jobs, wall=args.wall,
                            selfcheck=not args.no_selfcheck, verbose=args.verbose, evidence=not args.no_evidence)


if __name__ == '__main__':
    try:
        rc = main()
    except SystemExit:
        raise
    except BaseException:
        import traceback
        print('HARNESS-ERROR\n' + traceback.format_exc())
        rc = 2
    sys.stdout.flush()
    sys.exit(rc)
