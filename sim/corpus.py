"""Workload documents: the vendored data files of the repository's own suite plus a seeded
generator of synthetic YAML text (valid most of the time; validity is not required by any
oracle that uses it, every oracle compares executions of the same text)."""
import codecs
import functools
import os

from . import build

DATA = os.path.join(build.VERIF, 'corpus', 'data')


@functools.lru_cache(maxsize=None)
def files():
    """[(name, bytes)] sorted by name."""
    out = []
    for name in sorted(os.listdir(DATA)):
        with open(os.path.join(DATA, name), 'rb') as f:
            out.append((name, f.read()))
    return out


@functools.lru_cache(maxsize=None)
def text_documents():
    """[(name, str)]: every corpus file that decodes cleanly and contains only characters
    of the YAML printable set (so that no reader-level error interferes)."""
    import re
    nonprint = re.compile('[^\x09\x0A\x0D\x20-\x7E\x85\xA0-\ud7ff\ue000-\ufffd\U00010000-\U0010ffff]')
    out = []
    for name, data in files():
        try:
            if data.startswith(codecs.BOM_UTF16_LE) or data.startswith(codecs.BOM_UTF16_BE):
                text = data.decode('utf-16')
            else:
                text = data.decode('utf-8')
        except UnicodeDecodeError:
            continue
        if text.startswith('\ufeff'):
            text = text[1:]
        if nonprint.search(text):
            continue
        out.append((name, text))
    return out


# ---------------------------------------------------------------------------
# synthetic documents

WORDS_ASCII = ['alpha', 'beta', 'gamma', 'delta', 'key', 'value', 'item', 'x', 'y', 'z', 'name', 'a b',
               'hello world', 'foo-bar', 'under_score', 'CamelCase', 'v1.2.3', 'http://example.com/a?b=c',
               'q', 'null-ish', 'yes-sir', 'on-off', '12ab', 'a:b', 'a#b', 'tail ']
WORDS_UNI = ['caf\u00e9', 'na\u00efve', '\u0436\u0438\u0437\u043d\u044c', '\u4e2d\u6587', '\u65e5\u672c\u8a9e',
             '\U0001F600', '\U0001F680x', 'a\U00010000b', '\u00a0nbsp', '\u20ac99', '\ud55c\uae00', '\u03b1\u03b2\u03b3',
             '\uff21\uff22', '\U0010FFFF', '\ue000', '\ufffd', 'x\u0301']
IMPLICIT = ['1', '-17', '0x1F', '0o17', '017', '1_000', '3.14', '-.5', '1e3', '.inf', '-.INF', '.nan', 'true', 'False',
            'yes', 'No', 'on', 'OFF', 'null', '~', '', '2001-12-14', '2001-12-14t21:59:43.10-05:00',
            '2001-12-14 21:59:43.10 -5', '190:20:30', '0b1010', '<<', '=', '+12', '1:30',
            # near misses of the numeric forms (plain strings): a digit run with a bad tail is where a careless regular
            # expression backtracks
            '0xDEADBEEFG', '0b10102', '0o778', '1_000_x', '+.inf.', '190:20:30:zz', '2001-12-14x', '1e3e', '-0x1F-dirty', '12:60']
ESCAPES = ['\\0', '\\a', '\\b', '\\t', '\\n', '\\v', '\\f', '\\r', '\\e', '\\ ', '\\"', '\\/', '\\\\', '\\N', '\\_', '\\L',
           '\\P', '\\x41', '\\xe9', '\\u263A', '\\u00e9', '\\U0001F600', '\\U00000041', '\\U0010FFFF',
           # JSON-style surrogate pairs and lone surrogate escapes (what json.dumps(ensure_ascii=True) writes)
           '\\uD83D\\uDE00', '\\ud83d\\ude00', '\\uD800', '\\uDBFF\\uDFFF', '\\uDC00x']
TAGS = ['!!str', '!!int', '!!float', '!!map', '!!seq', '!!set', '!!omap', '!!binary', '!local', '!<tag:example.com,2000:x>',
        '!', '!!null', '!!bool', '!a%20b', '!!timestamp', '!!pairs', '!<tag:yaml.org,2002:s%74r>', '!l%C3%A9on',
        '!<tag:example.com,2000:%E2%82%AC%2Fx>', '!!s%74r', '!<http://example.com/point>', '!<https://Example.COM:8080/a%20b?q=1#frag>',
        '!<urn:uuid:6e8bc430-9c3a-11d9-9669-0800200c9a66>']


class DocGen:
    def __init__(self, r, uni=0.3, flow=0.3, depth=4, breaks=None):
        self.r = r
        self.uni = uni
        self.pflow = flow
        self.maxdepth = depth
        self.anchors = []
        self.n_anchor = 0
        self.handle = False

    def word(self):
        r = self.r
        if r.random() < self.uni:
            return r.choice(WORDS_UNI)
        return r.choice(WORDS_ASCII)

    def plain(self):
        r = self.r
        x = r.random()
        if x < 0.25:
            return r.choice(IMPLICIT) or '~'
        w = self.word().strip() or 'w'
        if x < 0.35:
            w = w + ' ' + self.word().strip()
        if w[0] in '-?:,[]{}#&*!|>\'"%@`' or ': ' in w or ' #' in w:
            w = 'p' + w.replace(': ', ':').replace(' #', '#')
        return w

    def dquoted(self):
        r = self.r
        parts = []
        for _ in range(r.randint(0, 5)):
            x = r.random()
            if x < 0.4:
                parts.append(r.choice(ESCAPES))
            elif x < 0.5:
                parts.append('\\\n   ')        # escaped line break
            elif x < 0.6:
                parts.append('\n  ')            # folded line break
            else:
                parts.append(self.word().replace('\\', '').replace('"', ''))
        return '"' + ' '.join(parts) + '"'

    def squoted(self):
        r = self.r
        parts = [self.word().replace("'", "''") for _ in range(r.randint(0, 4))]
        if r.random() < 0.2:
            parts.insert(r.randint(0, len(parts)), "it''s")
        if r.random() < 0.15:
            parts.insert(r.randint(0, len(parts)), '\n ')
        return "'" + ' '.join(parts) + "'"

    def block_scalar(self, indent):
        r = self.r
        head = r.choice('|>') + r.choice(['', '-', '+', '', '']) + r.choice(['', '', '', '2'])
        if '2' in head:
            pad = ' ' * (indent + 2)
        else:
            pad = ' ' * (indent + r.choice([1, 2, 4]))
        if r.random() < 0.2:
            head += ' # comment'
        lines = []
        for j in range(r.randint(1, 5)):
            x = r.random() if j else 1.0
            if x < 0.15:
                lines.append('')
            elif x < 0.3:
                lines.append(pad + '  ' + self.word())
            else:
                lines.append(pad + self.word() + ' ' + self.word())
        if r.random() < 0.3:
            lines.append('')
        return head + '\n' + '\n'.join(lines)

    def props(self):
        r = self.r
        out = []
        if r.random() < 0.12:
            out.append(r.choice(TAGS + ['!e!suffix', '!e!x'] * 2) if self.handle or r.random() < 0.03 else r.choice(TAGS))
        if r.random() < 0.12:
            self.n_anchor += 1
            name = 'a%d' % self.n_anchor
            self.anchors.append(name)
            out.append('&' + name)
        if len(out) == 2 and r.random() < 0.5:
            out.reverse()
        return ' '.join(out)

    def scalar_inline(self):
        r = self.r
        x = r.random()
        if self.anchors and x < 0.08:
            return '*' + r.choice(self.anchors)
        if x < 0.6:
            s = self.plain()
        elif x < 0.8:
            s = self.dquoted()
        else:
            s = self.squoted()
        p = self.props()
        return (p + ' ' + s) if p else s

    def flow(self, depth):
        r = self.r
        if depth >= self.maxdepth or r.random() < 0.5:
            s = self.scalar_inline()
            return s.replace('\n', ' ')
        n = r.randint(0, 4)
        sep = r.choice([', ', ',', ' , ', ',\n  '])
        if r.random() < 0.5:
            return '[' + sep.join(self.flow(depth + 1) for _ in range(n)) + (',' if n and r.random() < 0.2 else '') + ']'
        items = []
        for _ in range(n):
            k = self.flow(depth + 2)
            x = r.random()
            if x < 0.1:
                items.append(k)
            elif x < 0.2:
                items.append('? ' + k + ' : ' + self.flow(depth + 1))
            else:
                items.append(k + ': ' + self.flow(depth + 1))
        return '{' + sep.join(items) + '}'

    def block(self, indent, depth, lines, n_items=None, kind=None):
        """Append the lines of a block node at `indent`."""
        r = self.r
        pad = ' ' * indent
        if kind is None:
            kind = r.random()
        n = n_items if n_items is not None else r.randint(1, 4)
        if depth >= self.maxdepth:
            kind = 1.0
        if kind < 0.4:          # block sequence
            for _ in range(n):
                self.entry(pad + '- ', indent + 2, depth, lines)
        elif kind < 0.85:       # block mapping
            for _ in range(n):
                x = r.random()
                if x < 0.08:
                    lines.append(pad + '? ' + self.scalar_inline().replace('\n', ' '))
                    self.entry(pad + ': ', indent + 2, depth, lines)
                else:
                    key = self.scalar_inline().replace('\n', ' ')
                    if len(key) > 200:
                        key = 'k'
                    self.entry(pad + key + ': ', indent + 2, depth, lines, in_map=True)
        else:
            lines.append(pad + self.scalar_inline())
        if r.random() < 0.1:
            lines.append(pad + '# comment ' + self.word())
        if r.random() < 0.05:
            lines.append('')

    def entry(self, prefix, indent, depth, lines, in_map=False):
        r = self.r
        x = r.random()
        if x < 0.45 or depth >= self.maxdepth:
            s = self.scalar_inline()
            if r.random() < 0.1:
                s += ' # trailing comment'
            lines.append(prefix + s)
        elif x < 0.55:
            p = self.props()
            lines.append(prefix + (p + ' ' if p else '') + self.block_scalar(indent - 2))
        elif x < 0.55 + self.pflow * 0.5:
            lines.append(prefix + self.flow(depth + 1))
        else:
            p = self.props()
            if in_map or r.random() < 0.5:
                lines.append((prefix + p).rstrip())
                if in_map and depth + 1 < self.maxdepth and r.random() < 0.3:
                    self.block(indent - 2, depth + 1, lines, kind=0.0)   # "key:\n- a" (sequence at the key's indent)
                else:
                    self.block(indent, depth + 1, lines)
            else:
                # compact nested collection: "- - a" / "- k: v"
                sub = []
                self.block(indent, depth + 1, sub)
                if sub:
                    first = sub[0][indent:] if sub[0].startswith(' ' * indent) else sub[0].lstrip()
                    lines.append(prefix + first)
                    lines.extend(sub[1:])
                else:
                    lines.append(prefix + '~')

    def document(self, target_len):
        r = self.r
        self.anchors = []
        self.handle = False
        lines = []
        explicit = r.random() < 0.5
        if r.random() < 0.15:
            lines.append('%YAML 1.' + r.choice('1112'))
            explicit = True
        if r.random() < 0.15:
            lines.append(r.choice(['%TAG !e! tag:example.com,2000:app/', '%TAG !e! tag:ex%61mple.com,2000:app%2F', '%TAG !e! http://example.com/schema/']))
            self.handle = True
            explicit = True
        if explicit:
            head = '---'
            if r.random() < 0.3:
                head += ' ' + self.scalar_inline() if r.random() < 0.5 else ' # c'
                lines.append(head)
                if r.random() < 0.95:
                    return lines + (['...'] if r.random() < 0.3 else [])
            else:
                lines.append(head)
        kind = r.random()
        self.block(0, 0, lines, n_items=r.randint(1, 6), kind=kind)
        while sum(len(l) + 1 for l in lines) < target_len and kind < 0.85 and r.random() < 0.9:
            self.block(0, 0, lines, n_items=r.randint(1, 6), kind=kind)
        if r.random() < 0.25:
            lines.append('...')
        return lines


def synth(r, target_len=None):
    """A synthetic stream (1..n documents) as str.  Line break style is chosen per stream."""
    if target_len is None:
        x = r.random()
        target_len = r.randint(0, 120) if x < 0.55 else r.randint(120, 1500) if x < 0.9 else r.randint(1500, 14000)
    g = DocGen(r, uni=r.choice([0.0, 0.2, 0.6, 0.95]), flow=r.choice([0.1, 0.4, 0.9]), depth=r.choice([1, 2, 3, 5]))
    lines = []
    ndocs = r.choice([1, 1, 1, 2, 3, 5])
    for d in range(ndocs):
        doc = g.document(target_len // ndocs)
        if d and not (doc and doc[0].startswith(('---', '%'))):
            doc.insert(0, '---')
        elif d and doc and doc[0].startswith('%') and not (lines and lines[-1] == '...'):
            lines.append('...')
        lines.extend(doc)
    # grow to the target by repeating a mapping body (gives streams spanning several refill blocks)
    text = '\n'.join(lines) + ('\n' if r.random() < 0.85 else '')
    if len(text) < target_len and target_len > 1500:
        filler = []
        i = 0
        while len(text) + sum(len(f) + 1 for f in filler) < target_len:
            g.anchors = []
            filler.append('filler%d: %s' % (i, g.scalar_inline().replace('\n', ' ')))
            i += 1
        text = text + ('' if text.endswith('\n') or not text else '\n') + '---\n' + '\n'.join(filler) + '\n'
    style = r.random()
    if style < 0.55:
        pass
    elif style < 0.7:
        text = text.replace('\n', '\r\n')
    elif style < 0.8:
        text = text.replace('\n', '\r')
    else:
        brk = ['\n', '\r\n', '\r', '\x85', '\u2028', '\u2029'] if r.random() < 0.5 else ['\n', '\r\n', '\r']
        text = ''.join(r.choice(brk) if c == '\n' else c for c in text)
    return text


def pick_text(r, p_corpus=0.45):
    """(label, text) - a corpus file or a synthetic stream."""
    if r.random() < p_corpus:
        docs = text_documents()
        name, text = docs[r.randrange(len(docs))]
        return name, text
    return 'synth', synth(r)
