"""Simulated channel: the only streams the library sees during a simulated run.

SimReader decides the size of every piece read() returns, the EOF instant and an
optional exception at the n-th call; SimWriter decides whether the n-th
write()/flush() is accepted or raises, and keeps what was accepted.  Every call
is appended to an event log (a plain list), never to a clock.
"""


class ReadBudgetExceeded(BaseException):
    """The library keeps calling read() long after EOF was signalled."""


class StickyFault(Exception):
    """Raised by a sticky-faulted stream on every call after the injected one (a broken stream
    stays broken); it must never be what reaches the caller."""


class SimReader:
    """read(n) returns data[pos:pos+k]; k comes from the schedule, never more than n.

    schedule = {'sizes': [k0, k1, ...], 'then': K}: the i-th call returns
    min(k_i, n, remaining) units; after the list is used up every call returns
    min(K, n, remaining) (K=None: as much as requested).  A size of 0 in the list
    is bumped to 1 (a 0-length piece means EOF to both readers).
    fault = (call_index, exception_instance) raises at exactly that call; a callable in place of
    the instance is called to make a fresh exception (so that the stream does not keep its own
    traceback, and with it itself, alive).
    """

    def __init__(self, data, sizes=(), then=None, fault=None, log=None, name=None,
                 seq=None, label='read', sticky=False):
        self.sticky = sticky
        self.data = data
        self.sizes = list(sizes)
        self.then = then
        self.fault = fault
        self.log = log if log is not None else []
        self.pos = 0
        self.calls = 0
        self.requested_max = 0
        self.eof_signalled = 0
        self.budget = len(data) + 64
        self.seq = seq          # optional shared global event counter (a list of one int)
        self.label = label
        if name is not None:
            self.name = name

    def _stamp(self):
        if self.seq is not None:
            self.seq[0] += 1
            return self.seq[0]
        return self.calls

    def read(self, n=-1):
        i = self.calls
        self.calls += 1
        if self.calls > self.budget:
            raise ReadBudgetExceeded('read() called %d times for %d units' % (self.calls, len(self.data)))
        if self.fault is not None and self.fault[0] == i:
            self.log.append((self._stamp(), self.label, i, n, 'RAISE'))
            exc = self.fault[1]
            raise exc if isinstance(exc, BaseException) else exc()
        if self.sticky and self.fault is not None and i > self.fault[0]:
            self.log.append((self._stamp(), self.label, i, n, 'RAISE-STICKY'))
            raise StickyFault('read() call %d after the stream failed at call %d' % (i, self.fault[0]))
        remaining = len(self.data) - self.pos
        if n is None or n < 0:
            k = remaining
        else:
            if n > self.requested_max:
                self.requested_max = n
            if i < len(self.sizes):
                k = max(1, self.sizes[i])
            elif self.then is not None:
                k = max(1, self.then)
            else:
                k = n
            k = min(k, n, remaining)
        piece = self.data[self.pos:self.pos + k]
        self.pos += k
        if k == 0:
            self.eof_signalled += 1
        self.log.append((self._stamp(), self.label, i, n, k))
        return piece


class SimWriter:
    """write()/flush() sink.  fault = (invocation_index, exception_instance) over the
    merged write+flush invocation sequence.  kind: 'text' has an `encoding`
    attribute (both emitters then write str), 'binary' has none."""

    def __init__(self, kind='text', with_flush=True, fault=None, log=None, seq=None, sticky=False):
        self.sticky = sticky
        self.pieces = []
        self.fault = fault
        self.log = log if log is not None else []
        self.calls = 0
        self.seq = seq
        self.kind = kind
        if kind == 'text':
            self.encoding = None
        if with_flush:
            self.flush = self._flush

    def _stamp(self):
        if self.seq is not None:
            self.seq[0] += 1
            return self.seq[0]
        return self.calls

    def write(self, data):
        i = self.calls
        self.calls += 1
        if self.fault is not None and self.fault[0] == i:
            self.log.append((self._stamp(), 'write', i, len(data), 'RAISE'))
            raise self.fault[1]
        if self.sticky and self.fault is not None and i > self.fault[0]:
            self.log.append((self._stamp(), 'write', i, len(data), 'RAISE-STICKY'))
            raise StickyFault('write() call %d after the stream failed at call %d' % (i, self.fault[0]))
        self.pieces.append(data)
        self.log.append((self._stamp(), 'write', i, len(data), 'ok'))
        return len(data)

    def _flush(self):
        i = self.calls
        self.calls += 1
        if self.fault is not None and self.fault[0] == i:
            self.log.append((self._stamp(), 'flush', i, 0, 'RAISE'))
            raise self.fault[1]
        if self.sticky and self.fault is not None and i > self.fault[0]:
            self.log.append((self._stamp(), 'flush', i, 0, 'RAISE-STICKY'))
            raise StickyFault('flush() call %d after the stream failed at call %d' % (i, self.fault[0]))
        self.log.append((self._stamp(), 'flush', i, 0, 'ok'))

    def value(self):
        if not self.pieces:
            return '' if self.kind == 'text' else b''
        first = self.pieces[0]
        if isinstance(first, str):
            return ''.join(self.pieces)
        return b''.join(self.pieces)


# ---------------------------------------------------------------------------
# schedule generators (pure functions of a random.Random)

def sched_all_ones(rng, n):
    return {'sizes': [], 'then': 1}


def sched_small(rng, n):
    return {'sizes': [rng.randint(1, 5) for _ in range(min(n, 64))], 'then': rng.randint(1, 5)}


def sched_geometric(rng, n):
    sizes, k = [], 1
    while sum(sizes) < n and len(sizes) < 40:
        sizes.append(k)
        k = k * 2 if rng.random() < 0.7 else max(1, k // 2)
    return {'sizes': sizes, 'then': None}


def sched_full(rng, n):
    return {'sizes': [], 'then': None}


def sched_near_block(rng, n, block=4096):
    return {'sizes': [rng.choice([block - 1, block, block + 1, block // 2, 2 * block - 1])
                      for _ in range(8)], 'then': None}


def sched_targeted(rng, n, cuts):
    """Pieces ending exactly at each chosen cut offset (sorted, deduplicated)."""
    cuts = sorted(set(c for c in cuts if 0 < c < n))
    sizes, prev = [], 0
    for c in cuts:
        sizes.append(c - prev)
        prev = c
    return {'sizes': sizes, 'then': None}


def sched_random(rng, n):
    sizes = []
    total = 0
    mode = rng.choice(['tiny', 'mixed', 'big'])
    while total < n and len(sizes) < 200:
        if mode == 'tiny':
            k = rng.randint(1, 3)
        elif mode == 'mixed':
            k = rng.choice([1, 2, 3, 7, 16, 100, 1000, 4095, 4096, 4097])
        else:
            k = rng.randint(1000, 20000)
        sizes.append(k)
        total += k
    return {'sizes': sizes, 'then': rng.choice([None, 1, 2, 4096])}
